//! C09 — crash faults: budget arithmetic, effect of a crash, silence of crashed actors, and the
//! crashed configuration being a NEW state.
//! Instantiation: `ActorModel<CA, (), u8>` with 1 actor (two actors run out of memory in CBMC: measured); timers, random
//! choices and network empty except in the "loaded crash" harness; `CA` has `u8` state/messages.
use super::common::*;
use crate::actor::{Actor, ActorModel, ActorModelAction, ActorModelState, Id, Network, Out, RandomChoices, Timers};
use crate::Model;
use std::borrow::Cow;
use std::sync::Arc;

#[derive(Clone)]
pub struct CA;
impl Actor for CA {
    type Msg = u8;
    type State = u8;
    type Timer = u8;
    type Random = u8;
    fn on_start(&self, _id: Id, _o: &mut Out<Self>) -> u8 {
        0
    }
    fn on_msg(&self, _id: Id, state: &mut Cow<u8>, _src: Id, msg: u8, _o: &mut Out<Self>) {
        *state.to_mut() = msg;
    }
}

fn model_n<const N: usize>(max_crashes: usize) -> ActorModel<CA, (), u8> {
    model_net::<N>(max_crashes, false)
}

fn model_net<const N: usize>(max_crashes: usize, ordered: bool) -> ActorModel<CA, (), u8> {
    let mut m = ActorModel::new((), 0u8);
    if ordered {
        m = m.init_network(Network::new_ordered([]));
    }
    let mut i = 0;
    while i < N {
        m = m.actor(CA);
        i += 1;
    }
    m.max_crashes(max_crashes)
}

fn state_n<const N: usize>(st: [u8; 3], cr: [bool; 3], h: u8) -> ActorModelState<CA, u8> {
    let (actor_states, timers_set, random_choices, crashed) = match N {
        1 => (vec![Arc::new(st[0])], vec![Timers::new()], vec![RandomChoices::default()], vec![cr[0]]),
        2 => (
            vec![Arc::new(st[0]), Arc::new(st[1])],
            vec![Timers::new(), Timers::new()],
            vec![RandomChoices::default(), RandomChoices::default()],
            vec![cr[0], cr[1]],
        ),
        _ => (
            vec![Arc::new(st[0]), Arc::new(st[1]), Arc::new(st[2])],
            vec![Timers::new(), Timers::new(), Timers::new()],
            vec![RandomChoices::default(), RandomChoices::default(), RandomChoices::default()],
            vec![cr[0], cr[1], cr[2]],
        ),
    };
    ActorModelState { actor_states, network: Network::new_unordered_duplicating([]), timers_set, random_choices, crashed, history: h }
}

/// A crash of actor I (which is up): sets exactly flag I, leaves every other flag, every actor
/// state, the history and the network unchanged, leaves I without timers or pending choices -
/// and the result is a DIFFERENT state from its predecessor (`!=`, different hasher stream), so
/// the checker cannot discard it as already seen.
fn crash_step<const N: usize, const I: usize>() {
    let st: [u8; 3] = [kani::any(), kani::any(), kani::any()];
    let mut cr: [bool; 3] = [kani::any(), kani::any(), kani::any()];
    cr[I] = false;
    let h: u8 = kani::any();
    let m = model_n::<N>(N);
    let s = state_n::<N>(st, cr, h);
    let next = m.next_state(&s, ActorModelAction::Crash(Id::from(I)));
    let t = next.expect("C09 a crash always yields a successor");
    assert!(t.crashed.len() == N && t.actor_states.len() == N, "C09 crash keeps the system size");
    let mut j = 0;
    while j < N {
        assert!(t.crashed[j] == (j == I || cr[j]), "C09 crash sets exactly the flag of the crashed actor");
        assert!(*t.actor_states[j] == st[j], "C09 crash leaves every actor state unchanged");
        j += 1;
    }
    assert!(t.history == h, "C09 crash leaves the history unchanged");
    assert!(t.network.len() == 0, "C09 crash leaves the network unchanged");
    assert!(t.timers_set[I].iter().next().is_none(), "C09 crashed actor has no timers");
    assert!(t.random_choices[I].map.is_empty(), "C09 crashed actor has no pending random choices");
    assert!(t != s, "C09 the crashed configuration is a distinct state (==)");
    let rs = rec_of(&s);
    let rt = rec_of(&t);
    assert!(!rs.overflow && !rt.overflow);
    assert!(!rs.same_bytes(&rt), "C09 the crashed configuration has a distinct fingerprint stream");
    kani::cover!(true, "crash step reached");
}

#[kani::proof]
#[kani::unwind(3)]
fn c09_crash_step_n1() {
    crash_step::<1, 0>();
}

/// Deliveries: a crashed actor never receives a message (no successor for any source and
/// message), while an actor that is up does, and its handler runs.
fn deliver_step<const N: usize, const I: usize>() {
    let st: [u8; 3] = [kani::any(), kani::any(), kani::any()];
    let cr: [bool; 3] = [kani::any(), kani::any(), kani::any()];
    let h: u8 = kani::any();
    let m = model_n::<N>(N);
    let s = state_n::<N>(st, cr, h);
    let src = Id::from(kani::any::<usize>());
    let msg: u8 = kani::any();
    let next = m.next_state(&s, ActorModelAction::Deliver { src, dst: Id::from(I), msg });
    if cr[I] {
        assert!(next.is_none(), "C09 a crashed actor never receives a message");
    } else {
        let t = next.expect("C09 an actor that is up receives the message");
        assert!(*t.actor_states[I] == msg, "C09 the handler of the receiving actor ran");
        let mut j = 0;
        while j < N {
            assert!(t.crashed[j] == cr[j], "C09 a delivery changes no crash flag");
            if j != I {
                assert!(*t.actor_states[j] == st[j], "C09 other actors behave as before");
            }
            j += 1;
        }
    }
    kani::cover!(cr[I], "delivery to a crashed actor");
    kani::cover!(!cr[I], "delivery to an actor that is up");
}

#[kani::proof]
#[kani::unwind(3)]
fn c09_deliver_n1() {
    deliver_step::<1, 0>();
}

/// On an ORDERED network too, a delivery addressed to a crashed actor yields no successor (the
/// ordered-network exemption from no-op pruning must not bypass the crash test).
fn deliver_crashed_ordered<const N: usize, const I: usize>() {
    let st: [u8; 3] = [kani::any(), kani::any(), kani::any()];
    let mut cr: [bool; 3] = [kani::any(), kani::any(), kani::any()];
    cr[I] = true;
    let m = model_net::<N>(N, true);
    let mut s = state_n::<N>(st, cr, kani::any());
    s.network = Network::new_ordered([]);
    let src = Id::from(kani::any::<usize>());
    let msg: u8 = kani::any();
    kani::cover!(true, "ordered delivery to a crashed actor attempted");
    let next = m.next_state(&s, ActorModelAction::Deliver { src, dst: Id::from(I), msg });
    assert!(next.is_none(), "C09 a crashed actor never receives a message (ordered network)");
}
#[kani::proof]
#[kani::unwind(3)]
fn c09_deliver_crashed_ordered_n1() {
    deliver_crashed_ordered::<1, 0>();
}

/// A crash of an actor that HOLDS a timer: the timer is discarded and the flag set.
#[kani::proof]
#[kani::unwind(4)]
fn c09_crash_discards_timer_n1() {
    let m = model_n::<1>(1);
    let mut s = state_n::<1>([kani::any(), 0, 0], [false, false, false], kani::any());
    let t: u8 = kani::any();
    s.timers_set[0].set(t);
    assert!(s.timers_set[0].iter().next().is_some());
    let t2 = m.next_state(&s, ActorModelAction::Crash(Id::from(0usize))).expect("C09 a crash always yields a successor");
    assert!(t2.crashed[0], "C09 crash sets the flag");
    assert!(t2.timers_set[0].iter().next().is_none(), "C09 crash discards the pending timers of the crashed actor");
    kani::cover!(true, "loaded crash reached");
}

/// A crash of an actor that HOLDS a pending random choice: the choice is discarded.
/// (The choice key is the empty string: cloning a heap-allocated key of non-constant length is
/// an allocation of symbolic size, which CBMC cannot handle.)
#[kani::proof]
#[kani::unwind(4)]
fn c09_crash_discards_choice_n1() {
    let m = model_n::<1>(1);
    let mut s = state_n::<1>([kani::any(), 0, 0], [false, false, false], kani::any());
    let r: u8 = kani::any();
    s.random_choices[0].insert(String::new(), vec![r]);
    assert!(!s.random_choices[0].map.is_empty());
    let t2 = m.next_state(&s, ActorModelAction::Crash(Id::from(0usize))).expect("C09 a crash always yields a successor");
    assert!(t2.crashed[0], "C09 crash sets the flag");
    assert!(t2.random_choices[0].map.is_empty(), "C09 crash discards the pending random choices of the crashed actor");
    kani::cover!(true, "loaded crash reached");
}

/// Budget: with `max_crashes = K`, `actions()` offers `Crash(i)` exactly for the actors that are
/// up, in index order, and only while fewer than K actors are down (nothing else is enabled in
/// these states).
fn crash_budget<const N: usize>() {
    let st: [u8; 3] = [kani::any(), kani::any(), kani::any()];
    let cr: [bool; 3] = [kani::any(), kani::any(), kani::any()];
    let k: usize = kani::any();
    kani::assume(k <= N + 1);
    let m = model_n::<N>(k);
    let s = state_n::<N>(st, cr, 0);
    let mut acts = Vec::with_capacity(4);
    m.actions(&s, &mut acts);
    let mut down = 0;
    let mut j = 0;
    while j < N {
        if cr[j] {
            down += 1;
        }
        j += 1;
    }
    if down < k {
        assert!(acts.len() == N - down, "C09 one crash action per actor that is up while below the budget");
        let mut pos = 0;
        let mut j = 0;
        while j < N {
            if !cr[j] {
                assert!(matches!(&acts[pos], ActorModelAction::Crash(id) if *id == Id::from(j)), "C09 crash offered for exactly the actors that are up");
                pos += 1;
            }
            j += 1;
        }
    } else {
        assert!(acts.is_empty(), "C09 no crash is offered once the budget is used up");
    }
    kani::cover!(down == k && k > 0, "budget exactly exhausted");
    kani::cover!(down + 1 == k, "last allowed crash");
    std::mem::forget(acts);
}

#[kani::proof]
#[kani::unwind(3)]
fn c09_crash_budget_n1() {
    crash_budget::<1>();
}

/// Vacuity twin.
#[kani::proof]
#[kani::unwind(3)]
fn c09_twin_must_fail() {
    let m = model_n::<1>(1);
    let s = state_n::<1>([kani::any(), 0, 0], [true, false, false], 0);
    let next = m.next_state(&s, ActorModelAction::Deliver { src: Id::from(0usize), dst: Id::from(0usize), msg: 1 });
    assert!(next.is_some(), "TWIN crashed actors receive messages (false)");
}
