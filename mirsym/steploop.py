"""One transition of an actor model (`ActorModel::next_state` and `process_commands` in
src/actor/model.rs), from the MIR: which handler is invoked, on what, and what is changed.

Lenient execution (every callee arbitrary, loops havocked); values returned by the interesting calls
are distinct opaque objects whose projections / indexings keep their provenance, so "the successor
that is returned is the clone of the last state made on this path, and every mutation on the path
targets that clone" is a statement about object identity per path; z3 decides path feasibility.

Obligations (N = next_state, P = process_commands):
  N1  a transition invokes at most one handler; Drop and Crash invoke none
  N2  a returned successor is the clone of `last_sys_state` made on that path, and every mutating
      call on the path (network, timers, random choices, crash flags, actor states, command
      processing) targets that clone: nothing else changes, the last state is never written
  N3  with a handler: exactly one `process_commands`, after the handler, for the same actor id, with
      the `Out` the handler filled and the successor
  N4  Deliver: the history hook `record_msg_in` runs after the handler and before the commands are
      processed, the envelope is consumed from the successor's network exactly once; Timeout: the
      fired timer is cancelled on the successor before the commands are processed; SelectRandom:
      the selected choice is removed on the successor before the commands are processed
  N5  no transition (None) is returned only before any handler ran (unknown or crashed recipient) or
      directly after a handler whose step was a no-op; such a path changes nothing
  N6  Crash: timers cancelled, choices cleared, crash flag set - on the successor
  P1  per command of the handler's output, in output order (the loop is the Out's own iterator):
      Send -> history hook `record_msg_out`, then exactly one `Network::send` of an envelope from
      this actor on the state being built; SetTimer / CancelTimer / ChooseRandom -> exactly one
      `Timers::set` / `Timers::cancel` / random-choice insert-or-remove for this actor
"""
import re
import z3

from mir import parse_body, split_functions, Unsupported
from symex import Executor, State
from blockloop import _natural_loop, _assigned
from runtimeloop import RtExecutor
from workerloop import loop_heads, _check

MUTATORS = ("on_deliver", "on_drop", "net_send", "timers_cancel", "timers_cancel_all", "timers_set", "choices_remove", "choices_insert", "map_clear", "process_commands")


def find(mir_text, fn):
    for f in split_functions(mir_text):
        if re.match(rf"^fn (?:actor::)?model::<impl at src/actor/model\.rs[^>]*>::{fn}\(", f.split("\n", 1)[0]):
            return f
    return None


class StepExecutor(RtExecutor):
    def call(self, st, body, t):
        f = t.args["func"]
        args = [self.read(st, a) for a in t.args["args"]]

        def uniq(tag, parent=None, how=None):
            v = ("opaque", f"{tag}#{next(self.fresh)}")
            if parent is not None:
                self.prov[v[1]] = (parent, how)
            return v

        m = re.search(r"as actor::Actor>::(on_msg|on_timeout|on_random|on_start)$", f)
        if m:
            st.events.append((m.group(1), args, dict(st.heap)))
            return ("opaque", "unit")
        if re.match(r"^(move|copy) _\d+$", f):
            ret = uniq("hook")
            st.events.append(("hook", args, ret))
            return ret
        if re.search(r"ActorModelState<A, H> as Clone>::clone$", f):
            ret = uniq("next")
            st.events.append(("clone_state", args, ret))
            return ret
        if re.search(r"actor::Out::<A>::new$", f):
            return uniq("out")
        if re.search(r"ActorModel::<A, C, H>::process_commands$", f):
            st.events.append(("process_commands", args, dict(st.heap)))
            return ("opaque", "unit")
        for pat, tag in ((r"Network::<.*>::on_deliver$", "on_deliver"), (r"Network::<.*>::on_drop$", "on_drop"), (r"Network::<.*>::send$", "net_send"),
                         (r"Timers::<.*>::cancel$", "timers_cancel"), (r"Timers::<.*>::cancel_all$", "timers_cancel_all"), (r"Timers::<.*>::set$", "timers_set"),
                         (r"RandomChoices::<.*>::remove$", "choices_remove"), (r"RandomChoices::<.*>::insert$", "choices_insert"), (r"HashMap::<.*>::clear$", "map_clear")):
            if re.search(pat, f):
                st.events.append((tag, args, dict(st.heap)))
                return ("opaque", tag)
        if re.search(r"as IndexMut<usize>>::index_mut$|as std::ops::Index<usize>>::index$|as Index<usize>>::index$", f):
            tgt = self._target(st, args[0])
            slot = uniq("slot", self.origin(tgt), "index")
            return ("ref", st.alloc(slot))
        if re.search(r"as DerefMut>::deref_mut$|as Deref>::deref$", f):
            tgt = self._target(st, args[0])
            if tgt[0] == "opaque":
                inner = uniq("deref", tgt[1], "deref")
                return ("ref", st.alloc(inner))
        mm = re.search(r"^actor::(is_no_op|is_no_op_with_timer)::<", f) or re.search(r"^(is_no_op|is_no_op_with_timer)::<", f)
        if mm:
            b = self.fresh_bool("noop")
            st.events.append(("is_no_op", b))
            from symex import B
            return B(b)
        base = re.sub(r"::<[^()]*>$", "", f)
        last = base.rsplit("::", 1)[-1]
        if last in self.bodies and last not in ("process_commands", "next_state", Executor.short(body).rsplit("::", 1)[-1]) and len(st.frames) < 3 \
                and (base.startswith("ActorModel::<") or base == last or "::" + last in base and not base.startswith("<")):
            return ("enter", last, args)
        return super().call(st, body, t)

    def root(self, v):
        """origin string of the object a (chain of) reference(s) points into"""
        return self.origin(v)


def helpers(mir_text):
    """other (non-closure) functions defined in src/actor/model.rs: followed when the step code calls them"""
    res = {}
    for f in split_functions(mir_text):
        hdr = f.split("\n", 1)[0]
        m = re.match(r"^fn (?:actor::)?model::<impl at src/actor/model\.rs[^>]*>::((?:\w+::)*\w+)\(", hdr)
        if m and "{closure" not in hdr.split("(", 1)[0]:
            name = m.group(1).rsplit("::", 1)[-1]
            if name not in ("next_state", "process_commands", "actions", "init_states", "properties", "new", "is_no_op", "is_no_op_with_timer"):
                res[name] = f
    # functions nested inside the step functions are printed with their bare name
    called = set()
    for fn in ("next_state", "process_commands"):
        t = find(mir_text, fn) or ""
        called |= set(re.findall(r"= ([a-z_][a-z0-9_]*)(?:::<[^()]*>)?\(", t))
    for name in called:
        defs = [f for f in split_functions(mir_text) if re.match(rf"^fn {name}\(", f)]
        if len(defs) == 1 and name not in res and not name.startswith("is_no_op"):
            res[name] = defs[0]
    return res


def _run(text, setup, extra=None):
    body = parse_body(text)
    bodies = {Executor.short(body): body}
    for nm, t in (extra or {}).items():
        if nm not in bodies:
            try:
                bodies[nm] = parse_body(t)
            except Unsupported:
                pass
    ex = StepExecutor(bodies)
    ex.job_types, ex.depth_idx = [], None
    heads = sorted(h for h in loop_heads(body) if not body.blocks[h].cleanup)
    ex.loop_havoc = {h: _assigned(body, _natural_loop(body, h)) for h in heads}
    ex.stop_blocks = set()
    st = State()
    setup(st, body)
    outs = [o for o in ex.run(body, st, 0) if o.kind != "panic"]
    return body, ex, outs, heads


def _target_origin(ex, heap, v):
    d = 0
    while v[0] in ("ref", "arc", "box") and d < 6:
        v = heap.get(v[1], ("?",))
        d += 1
    return ex.origin(v)


def obligations(mir_text, model_state_rs=None):
    res = []

    def add(ob, ok, g, **kw):
        r = z3.unsat if ok else _check([], g)[0]
        res.append({"obligation": "actor step: " + ob, "result": "unsat" if r == z3.unsat else ("sat" if r == z3.sat else str(r)), **kw})

    # ---------------------------------------------------------------- next_state
    text = find(mir_text, "next_state")
    if text is None:
        raise Unsupported("ActorModel::next_state not found in the MIR")

    def setup_ns(st, body):
        names = ["self", "last", "action"]
        for p, nm in zip(body.params, names):
            v = ("opaque", f"param.{nm}")
            st.locals[p] = st.alloc(("ref", st.alloc(v)) if nm != "action" else v)

    hist_idx = None
    if model_state_rs:
        m = re.search(r"pub struct ActorModelState<[^{]*\{(.*?)\n\}", model_state_rs, re.S)
        if m:
            fields = [mm.group(1) for mm in re.finditer(r"^\s*(?:pub(?:\([a-z]+\))? )?(\w+)\s*:", m.group(1), re.M)]
            if "history" in fields:
                hist_idx = fields.index("history")
    hl = helpers(mir_text)
    body, ex, outs, heads = _run(text, setup_ns, hl)
    n_h = {"on_msg": 0, "on_timeout": 0, "on_random": 0}
    n_crash = n_drop = n_none = 0
    for i, o in enumerate(outs):
        if o.kind != "return":
            continue
        st = o.st
        g = z3.And(*st.pc) if st.pc else z3.BoolVal(True)
        evs = st.events
        names_ = [e[0] for e in evs]
        tagp = f"next_state path {i} [" + ",".join(names_) + "]"
        rv = o.info.get("ret")
        is_some = rv is not None and rv[0] == "opt" and z3.is_true(z3.simplify(rv[1]))
        is_none = rv is not None and rv[0] == "opt" and z3.is_false(z3.simplify(rv[1]))
        if not (is_some or is_none):
            add(f"{tagp}: the result is built as Some(successor) or None", False, g)
            continue
        hs = [e for e in evs if e[0] in n_h]
        add(f"{tagp}: at most one handler per transition", len(hs) <= 1, g)
        clones = [e for e in evs if e[0] == "clone_state"]
        muts = [e for e in evs if e[0] in MUTATORS]
        if is_none:
            n_none += 1
            ok = not muts and not clones and (not hs or (names_[-1] == "is_no_op" and names_.index(hs[0][0]) < len(names_) - 1))
            add(f"{tagp}: no transition only before any handler ran or directly after a handler whose step was a no-op, and nothing was changed", ok, g)
            continue
        succ = st.heap[rv[2]]
        ok_clone = len(clones) == 1 and succ == clones[0][2] and _target_origin(ex, st.heap, clones[0][1][0]) == "param.last"
        add(f"{tagp}: the successor returned is the clone of the last state made on this path", ok_clone, g, **({} if ok_clone else {"witness": ex.origin(succ)}))
        if not ok_clone:
            continue
        sname = succ[1]
        for e in muts:
            tgt = e[1][0] if e[0] != "process_commands" else e[1][3]
            org = _target_origin(ex, e[2], tgt)
            add(f"{tagp}: {e[0]} works on the successor, nothing else is written", org.startswith(sname), g, **({} if org.startswith(sname) else {"witness": org}))
        if hs:
            h = hs[0]
            n_h[h[0]] += 1
            k = evs.index(h)
            pcs = [e for e in evs if e[0] == "process_commands"]
            ok3 = len(pcs) == 1 and evs.index(pcs[0]) > k
            add(f"{tagp}: exactly one process_commands, after the handler", ok3, g)
            if ok3:
                pc_ = pcs[0]
                out_arg = h[1][-1]
                out_obj = _target_origin(ex, h[2], out_arg)
                add(f"{tagp}: process_commands gets the Out the handler filled", ex.origin(pc_[1][2]) == out_obj and out_obj.startswith("out#"), g, **({} if ex.origin(pc_[1][2]) == out_obj else {"witness": [ex.origin(pc_[1][2]), out_obj]}))
                add(f"{tagp}: process_commands is called for the actor whose handler ran", ex.origin(pc_[1][1]) == ex.origin(h[1][1]), g)
                kp = evs.index(pc_)
                between = names_[k + 1:kp]
                if h[0] == "on_msg":
                    add(f"{tagp}: Deliver: record_msg_in runs after the handler and before the commands; the envelope is consumed exactly once", "hook" in between and names_.count("on_deliver") == 1 and "on_deliver" in between, g)
                    hooks = [e for e in evs[k + 1:kp] if e[0] == "hook"]
                    if hooks and hist_idx is not None:
                        hret = hooks[0][2]
                        installed = False
                        for key, cell in st.handles.items():
                            if isinstance(key, tuple) and len(key) == 3 and key[0] == "proj" and key[2] == ("field", hist_idx) and st.heap.get(key[1]) == succ:
                                installed = installed or ex.origin(st.heap[cell]).startswith(hret[1] + "/downcast:Some")
                        if installed:
                            add(f"{tagp}: Deliver: the history returned by record_msg_in is installed in the successor", True, g)
                        else:
                            dvs = [v for key, v in st.handles.items() if isinstance(key, tuple) and len(key) == 2 and key[0] == "discr" and st.heap.get(key[1]) == hret]
                            r, _ = _check([], g, *[dv == 1 for dv in dvs])  # the hook returned Some(history) on this path, or its result was never looked at
                            add(f"{tagp}: Deliver: the history returned by record_msg_in is installed in the successor", r == z3.unsat, g)
                elif h[0] == "on_timeout":
                    add(f"{tagp}: Timeout: the fired timer is cancelled before the commands are processed", between.count("timers_cancel") == 1, g)
                else:
                    add(f"{tagp}: SelectRandom: the selected choice is removed before the commands are processed", between.count("choices_remove") == 1, g)
        else:
            if "timers_cancel_all" in names_:
                n_crash += 1
                add(f"{tagp}: Crash: timers cancelled, choices cleared, no hook, no command processing", "map_clear" in names_ and "hook" not in names_ and "process_commands" not in names_, g)
            elif "on_drop" in names_:
                n_drop += 1
                add(f"{tagp}: Drop: exactly one envelope dropped, nothing else", names_.count("on_drop") == 1 and len(muts) == 1 and "hook" not in names_, g)
            else:
                add(f"{tagp}: a transition without a handler is a Drop or a Crash", False, g)
    if min(n_h.values()) == 0 or n_crash == 0 or n_drop == 0 or n_none == 0:
        raise Unsupported(f"next_state: shape not recognised (handlers {n_h}, crash {n_crash}, drop {n_drop}, none {n_none})")
    info = {"next_state": {"function": body.name, "blocks": len(body.blocks), "paths": len(outs)}}

    # ---------------------------------------------------------------- process_commands
    text = find(mir_text, "process_commands")
    if text is None:
        raise Unsupported("ActorModel::process_commands not found in the MIR")

    def setup_pc(st, body):
        for p, nm in zip(body.params, ["self", "id", "out", "state"]):
            v = ("opaque", f"param.{nm}")
            st.locals[p] = st.alloc(("ref", st.alloc(v)) if nm in ("self", "state") else v)

    body2, ex2, outs2, heads2 = _run(text, setup_pc, hl)
    kinds = set()
    for i, o in enumerate(outs2):
        st = o.st
        g = z3.And(*st.pc) if st.pc else z3.BoolVal(True)
        evs = st.events
        names_ = [e[0] for e in evs]
        tagp = f"process_commands path {i} [" + ",".join(names_) + f"]->{o.kind}"
        muts = [e for e in evs if e[0] in MUTATORS]
        for e in muts:
            org = _target_origin(ex2, e[2], e[1][0])
            add(f"{tagp}: {e[0]} works on the state being built", org.startswith("param.state"), g, **({} if org.startswith("param.state") else {"witness": org}))
        add(f"{tagp}: one command changes one thing", len(muts) <= 1, g)
        if "net_send" in names_:
            kinds.add("send")
            add(f"{tagp}: Send: record_msg_out runs, then the message enters the network once", "hook" in names_ and names_.index("hook") < names_.index("net_send"), g)
            env = evs[names_.index("net_send")][1][1]
            heap = evs[names_.index("net_send")][2]
            if env[0] == "struct" and len(env) >= 4 and "src" in env[3]:
                srcv = heap[dict(zip(env[3], [c for _, c in env[1]]))["src"]]
                add(f"{tagp}: Send: the envelope's source is the actor whose commands are processed", ex2.origin(srcv) == "param.id", g, **({} if ex2.origin(srcv) == "param.id" else {"witness": ex2.origin(srcv)}))
        for k in ("timers_set", "timers_cancel", "choices_insert", "choices_remove"):
            if k in names_:
                kinds.add(k)
        # every command is applied: which arm a path took is visible in the variant projections it used
        arms = {key[2][1] for key in st.handles if isinstance(key, tuple) and len(key) == 3 and key[0] == "proj" and key[2][0] == "downcast"}
        want = {"Send": ("net_send",), "SetTimer": ("timers_set",), "CancelTimer": ("timers_cancel",), "ChooseRandom": ("choices_insert", "choices_remove")}
        for arm, need in want.items():
            if arm in arms:
                add(f"{tagp}: a {arm} command is applied (its arm performs {' or '.join(need)})", any(n in names_ for n in need), g)
    if not {"send", "timers_set", "timers_cancel"} <= kinds or not (kinds & {"choices_insert", "choices_remove"}):
        raise Unsupported(f"process_commands: shape not recognised (command kinds seen: {sorted(kinds)})")
    info["process_commands"] = {"function": body2.name, "blocks": len(body2.blocks), "paths": len(outs2)}

    # ---------------------------------------------------------------- init_states (start-up step)
    text = find(mir_text, "init_states")
    if text is None:
        raise Unsupported("ActorModel::init_states not found in the MIR")

    def setup_is(st, body):
        st.locals[body.params[0]] = st.alloc(("ref", st.alloc(("opaque", "param.self"))))

    body3, ex3, outs3, heads3 = _run(text, setup_is, hl)
    n_start = 0
    for i, o in enumerate(outs3):
        st = o.st
        g = z3.And(*st.pc) if st.pc else z3.BoolVal(True)
        evs = st.events
        names_ = [e[0] for e in evs]
        tagp = f"init_states path {i} [" + ",".join(names_) + f"]->{o.kind}"
        starts = [e for e in evs if e[0] == "on_start"]
        add(f"{tagp}: start-up invokes no handler other than on_start", not any(n in names_ for n in ("on_msg", "on_timeout", "on_random")), g)
        if not starts:
            add(f"{tagp}: commands are processed only for an actor that was started", "process_commands" not in names_, g)
            continue
        n_start += 1
        add(f"{tagp}: one on_start per actor and round of the start-up loop", len(starts) == 1, g)
        pcs = [e for e in evs if e[0] == "process_commands"]
        ok = len(pcs) == 1 and evs.index(pcs[0]) > evs.index(starts[0])
        add(f"{tagp}: the start-up commands are processed exactly once, after on_start", ok, g)
        if ok:
            h, pc_ = starts[0], pcs[0]
            out_obj = _target_origin(ex3, h[2], h[1][-1])
            add(f"{tagp}: process_commands gets the Out that on_start filled, for the same actor id", ex3.origin(pc_[1][2]) == out_obj and out_obj.startswith("out#") and ex3.origin(pc_[1][1]) == ex3.origin(h[1][1]), g)
    if n_start == 0:
        raise Unsupported("init_states: no path that starts an actor found")
    info["init_states"] = {"function": body3.name, "blocks": len(body3.blocks), "paths": len(outs3)}
    return res, info
