//! C19 (Path API clause) — paths rebuilt from action lists and from fingerprints denote the same,
//! genuine execution of the model, and sequences that denote no execution are rejected.
//!
//! The model is a harness-defined transition table chosen by the solver: 3 states (0,1,2), two
//! actions (0,1) per state, each with a symbolic successor or "ignored" (`next_state` = None), a
//! symbolic set of initial states.  Instantiation: `Path<u8, u8>` over `TableModel`.
use crate::Path;
use crate::{fingerprint, Fingerprint, Model};
use std::collections::VecDeque;

#[derive(Clone)]
pub struct TableModel {
    /// succ[s][a]: 0..=2 successor, 3 = action ignored
    succ: [[u8; 2]; 3],
    init: [bool; 3],
}
impl TableModel {
    fn any() -> Self {
        let succ: [[u8; 2]; 3] = [[kani::any(), kani::any()], [kani::any(), kani::any()], [kani::any(), kani::any()]];
        let mut i = 0;
        while i < 3 {
            kani::assume(succ[i][0] <= 3 && succ[i][1] <= 3);
            i += 1;
        }
        TableModel { succ, init: [kani::any(), kani::any(), kani::any()] }
    }
    fn step(&self, s: u8, a: u8) -> Option<u8> {
        if s > 2 || a > 1 {
            return None;
        }
        let t = self.succ[s as usize][a as usize];
        if t == 3 {
            None
        } else {
            Some(t)
        }
    }
}
impl Model for TableModel {
    type State = u8;
    type Action = u8;
    fn init_states(&self) -> Vec<u8> {
        let mut v = Vec::with_capacity(4);
        let mut i = 0;
        while i < 3 {
            if self.init[i] {
                v.push(i as u8);
            }
            i += 1;
        }
        v
    }
    fn actions(&self, _s: &u8, actions: &mut Vec<u8>) {
        actions.push(0);
        actions.push(1);
    }
    fn next_state(&self, s: &u8, a: u8) -> Option<u8> {
        self.step(*s, a)
    }
}

/// `Path::from_actions`: returns a path exactly when the initial state is an initial state of the
/// model and every action is enabled and not ignored where it is taken; the path then lists the
/// genuine successor states with the actions taken and ends in the state reached.
fn from_actions<const N: usize>() {
    let m = TableModel::any();
    let s0: u8 = kani::any();
    kani::assume(s0 <= 3);
    let acts: [u8; 2] = [kani::any(), kani::any()];
    kani::assume(acts[0] <= 2 && acts[1] <= 2);
    let list: Vec<u8> = match N {
        0 => vec![],
        1 => vec![acts[0]],
        _ => vec![acts[0], acts[1]],
    };
    // oracle
    let mut ok = s0 <= 2 && m.init[s0 as usize];
    let mut states = [s0, 0, 0];
    let mut k = 0;
    while k < N {
        if ok {
            match m.step(states[k], acts[k]) {
                Some(t) => states[k + 1] = t,
                None => ok = false,
            }
        }
        k += 1;
    }
    let got = Path::from_actions(&m, s0, list.iter());
    assert!(got.is_some() == ok, "C19 from_actions yields a path exactly for executable action sequences");
    if let Some(p) = got {
        assert!(*p.last_state() == states[N], "C19 the path ends in the state the model reaches");
        let v = p.into_vec();
        assert!(v.len() == N + 1, "C19 one entry per state of the execution");
        let mut i = 0;
        while i <= N {
            assert!(v[i].0 == states[i], "C19 the path lists the model's successor states");
            assert!(v[i].1 == if i < N { Some(acts[i]) } else { None }, "C19 the path lists the actions taken, none after the last state");
            i += 1;
        }
    }
    kani::cover!(ok, "executable sequence");
    kani::cover!(!ok, "sequence that denotes no execution");
}
#[kani::proof]
#[kani::unwind(5)]
fn c19_path_from_actions_len0() {
    from_actions::<0>();
}
#[kani::proof]
#[kani::unwind(5)]
fn c19_path_from_actions_len1() {
    from_actions::<1>();
}
#[kani::proof]
#[kani::unwind(5)]
fn c19_t_path_from_actions_len2() {
    from_actions::<2>();
}

fn fp(s: u8) -> Fingerprint {
    fingerprint(&s)
}

/// `Path::final_state` (what the Explorer resolves fingerprint sequences with): Some(last state)
/// exactly when the fingerprint sequence denotes an execution from an initial state, else None.
/// `Path::from_fingerprints` on a sequence that denotes an execution rebuilds that execution.
fn from_fps<const N: usize>() {
    let m = TableModel::any();
    let st: [u8; 3] = [kani::any(), kani::any(), kani::any()];
    kani::assume(st[0] <= 3 && st[1] <= 3 && st[2] <= 3);
    // the four possible state values have pairwise distinct fingerprints (checked, not assumed)
    assert!(fp(0) != fp(1) && fp(0) != fp(2) && fp(1) != fp(2) && fp(3) != fp(0) && fp(3) != fp(1) && fp(3) != fp(2), "C19 fingerprints of the model's states are distinct");
    let mut dq = VecDeque::with_capacity(4);
    let mut k = 0;
    while k <= N {
        dq.push_back(fp(st[k]));
        k += 1;
    }
    // oracle: st[0] initial and each st[k+1] is a successor of st[k] under some non-ignored action
    let mut ok = st[0] <= 2 && m.init[st[0] as usize];
    let mut k = 0;
    while k < N {
        if ok {
            ok = st[k + 1] <= 2 && (m.step(st[k], 0) == Some(st[k + 1]) || m.step(st[k], 1) == Some(st[k + 1]));
        }
        k += 1;
    }
    let fin = Path::final_state(&m, dq.clone());
    assert!(fin.is_some() == ok, "C19 final_state resolves exactly the fingerprint sequences that denote an execution");
    if ok {
        assert!(fin == Some(st[N]), "C19 final_state returns the state at the end of the sequence");
        let p = Path::from_fingerprints(&m, dq);
        assert!(*p.last_state() == st[N], "C19 from_fingerprints ends in the same state");
        let v = p.into_vec();
        assert!(v.len() == N + 1, "C19 from_fingerprints: one entry per fingerprint");
        let mut i = 0;
        while i <= N {
            assert!(v[i].0 == st[i], "C19 from_fingerprints rebuilds the states of the execution");
            if i < N {
                let a = v[i].1.expect("C19 every non-final entry carries the action taken");
                assert!(m.step(st[i], a) == Some(st[i + 1]), "C19 the recorded action really leads to the next state");
            } else {
                assert!(v[i].1.is_none(), "C19 no action after the last state");
            }
            i += 1;
        }
    }
    kani::cover!(ok, "fingerprints of an execution");
    kani::cover!(!ok, "fingerprints that denote no execution");
}
#[kani::proof]
#[kani::unwind(5)]
fn c19_path_from_fingerprints_len0() {
    from_fps::<0>();
}
#[kani::proof]
#[kani::unwind(5)]
fn c19_path_from_fingerprints_len1() {
    from_fps::<1>();
}
#[kani::proof]
#[kani::unwind(5)]
fn c19_t_path_from_fingerprints_len2() {
    from_fps::<2>();
}

/// Vacuity twin.
#[kani::proof]
#[kani::unwind(5)]
fn c19_twin_must_fail() {
    let m = TableModel::any();
    let got = Path::from_actions(&m, 0u8, [0u8].iter());
    assert!(got.is_some(), "TWIN every action sequence is executable (false)");
}
