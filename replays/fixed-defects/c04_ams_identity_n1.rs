// replay for property C04, harness c04::c04_ams_identity_n1
// inject into harness module c04.rs of the scratch copy and run `cargo kani playback -Z concrete-playback`
/// Test generated for harness `verif_harness::c04::c04_ams_identity_n1` 
///
/// Check for `assertion`: ""C04 states differing only in crash flags are different states (==)""

#[test]
fn kani_concrete_playback_c04_ams_identity_n1_3728402442120130702() {
    let concrete_vals: Vec<Vec<u8>> = vec![
        // 0
        vec![0],
        // 255
        vec![255],
        // 255
        vec![255],
        // 0
        vec![0],
        // 255
        vec![255],
        // 255
        vec![255],
        // 0
        vec![0],
        // 1
        vec![1],
        // 1
        vec![1],
        // 1
        vec![1],
        // 1
        vec![1],
        // 1
        vec![1],
        // 255
        vec![255],
        // 255
        vec![255],
    ];
    kani::concrete_playback_run(concrete_vals, c04_ams_identity_n1);
}

/// Test generated for harness `verif_harness::c04::c04_ams_identity_n1` 
///
/// Check for `cover`: "equal states"

#[test]
fn kani_concrete_playback_c04_ams_identity_n1_5979598374161196207() {
    let concrete_vals: Vec<Vec<u8>> = vec![
        // 0
        vec![0],
        // 255
        vec![255],
        // 255
        vec![255],
        // 0
        vec![0],
        // 255
        vec![255],
        // 255
        vec![255],
        // 0
        vec![0],
        // 1
        vec![1],
        // 1
        vec![1],
        // 0
        vec![0],
        // 1
        vec![1],
        // 1
        vec![1],
        // 255
        vec![255],
        // 255
        vec![255],
    ];
    kani::concrete_playback_run(concrete_vals, c04_ams_identity_n1);
}
