//! Verification model of `log`: logging has no effect on behaviour, so every macro expands to an
//! empty block and its arguments (which in stateright contain `std::thread::current()`, a Kani
//! ICE, and `format!`) are never evaluated.
#[macro_export]
macro_rules! trace { ($($t:tt)*) => {{}}; }
#[macro_export]
macro_rules! debug { ($($t:tt)*) => {{}}; }
#[macro_export]
macro_rules! info { ($($t:tt)*) => {{}}; }
#[macro_export]
macro_rules! warn { ($($t:tt)*) => {{}}; }
#[macro_export]
macro_rules! error { ($($t:tt)*) => {{}}; }
#[macro_export]
macro_rules! log { ($($t:tt)*) => {{}}; }
#[macro_export]
macro_rules! log_enabled { ($($t:tt)*) => { false }; }
