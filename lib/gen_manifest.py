#!/usr/bin/env python3
"""Regenerates /verif/MANIFEST.json from lib/props.py and lib/not_applicable.py."""
import json, os, sys
sys.path.insert(0, os.path.dirname(os.path.abspath(__file__)))
from props import PROPS
from not_applicable import NOT_APPLICABLE, HOOK_COMMITS

V = os.path.dirname(os.path.dirname(os.path.abspath(__file__)))
checks = []
for pid in sorted(PROPS):
    sp = PROPS[pid]
    eng = sp["engine"]
    checks.append({
        "property_id": pid,
        "quick_cmd": f"bin/check {pid} --tier quick",
        "thorough_cmd": f"bin/check {pid} --tier thorough",
        "evidence_file": f"/verif/evidence/{pid}.json",
        "replay_cmd_template": f"bin/check {pid} --replay {{path}}",
        "engine": "kani-cbmc" if eng == "kani" else "mirsym-z3",
        "level_claimed": {
            "category": "other",
            "text": "Bounded symbolic model checking of the real code: " + sp["explanation"] + " A pass is a solver verdict over ALL values inside the stated bounds (unwinding assertions on, vacuity covers/twins required); it says nothing outside them. Outside the claim: " + "; ".join(sp["outside"]) + ".",
            "design_ref": sp.get("design_ref", "DESIGN.md section 4, " + pid),
        },
        "level_note": "Assumes/trusts: " + "; ".join(sp["assumptions"]) + ". Trusted base: rustc MIR, " + ("Kani goto lowering, CBMC 6.11 + CaDiCaL" if eng == "kani" else "the mirsym MIR parser/executor (validated differentially on every run), z3 (cvc5 cross-check in thorough)") + ", the harness-side oracles.",
        "technique": sp.get("technique", "solver-based bounded model checking of the compiled code (Kani/CBMC #[kani::proof] harnesses over kani::any() inputs)" if eng == "kani" else "symbolic execution of the compiler's MIR into SMT (mirsym + z3), schedules and inputs symbolic"),
    })
m = {
    "version": 1,
    "setup_cmd": "bin/setup",
    "hooks": {
        "guard": "getong_stateright_verif",
        "enable": "none needed: checks overlay the environment models and harness modules on a scratch copy of /repo's working tree (cfg(kani) for the harness modules); no cfg-guarded source hooks are committed to /repo",
        "baseline_off_cmd": "cd /repo && cargo test --workspace --no-fail-fast --offline",
        "source_commits": HOOK_COMMITS,
        "add_only": True,
    },
    "engines": [
        {"name": "kani-cbmc", "path": "/verif/lib/runner.py", "serves_properties": [p for p in sorted(PROPS) if PROPS[p]["engine"] == "kani"], "kind_free_text": "Kani 0.68 / CBMC 6.11 bounded model checking of harnesses compiled inside a scratch copy of the crate"},
        {"name": "mirsym-z3", "path": "/verif/mirsym", "serves_properties": [p for p in sorted(PROPS) if PROPS[p]["engine"] != "kani"], "kind_free_text": "own MIR->SMT symbolic executor (nightly -Zunpretty=mir) discharged by z3, schedules symbolic"},
    ],
    "checks": checks,
    "notes": "Technique family: solver-based checking of the real code. Exit codes: 0 held, 1 violation (replayed natively first), 2 inconclusive (never reported as success). Known findings: /verif/known_findings.json.",
    "not_applicable": [{"property_id": k, "reason": v} for k, v in sorted(NOT_APPLICABLE.items()) if k not in PROPS],
}
json.dump(m, open(os.path.join(V, "MANIFEST.json"), "w"), indent=1)
print("MANIFEST.json written:", len(checks), "checks,", len(m["not_applicable"]), "not applicable")
