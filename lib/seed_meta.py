#!/usr/bin/env python3
"""Writes /verif/seeded/<id>/meta.json from the confirmation and detection logs."""
import json, os, re, sys, glob
V='/verif/seeded'
conf={}
for lg in glob.glob('/tmp/confirm_all.log')+glob.glob('/tmp/seed_all*.log'):
    for l in open(lg):
        m=re.match(r'RESULT (\S+): (CONFIRMED|NOT CONFIRMED) \((.*)\)',l)
        if m: conf[m.group(1)]=(m.group(2),m.group(3))
det={}
for lg in sorted(glob.glob('/tmp/seed_all*.log')):
    for l in open(lg):
        m=re.match(r'SEEDED (\S+) (\S+): (DETECTED|MISSED|INCONCLUSIVE)(.*)',l)
        if m: det.setdefault(m.group(1),{})[m.group(2)]=(m.group(3),m.group(4).strip()[:600])
NOTES={'C12-m2':'after fix 5fc2dab (which rewrote the mutated line) this patch no longer applies; the same change carried over to the repaired tree is C12-m2r. The MISSED result is from before the worker-loop obligations existed.'}
props={json.loads(l)['id']:json.loads(l)['title'] for l in open('/verif/properties.jsonl')}
for d in sorted(os.listdir(V)):
    p=os.path.join(V,d)
    if not os.path.isdir(p): continue
    pid=d.split('-')[0]
    notes=open(os.path.join(p,'notes.md')).read() if os.path.exists(os.path.join(p,'notes.md')) else ''
    # results recorded in an earlier session survive when the /tmp logs are gone
    try:
        prev=json.load(open(os.path.join(p,'meta.json')))
    except Exception:
        prev={}
    if d not in conf and prev.get('confirmed_by_me',{}).get('result') in ('CONFIRMED','NOT CONFIRMED'):
        conf[d]=(prev['confirmed_by_me']['result'],prev['confirmed_by_me'].get('details',''))
    for k,v in prev.get('checks_run_against_it',{}).items():
        det.setdefault(d,{}).setdefault(k,(v['outcome'],v.get('detail','')))
    meta={
      'id':d,'breaks_property':pid,'property_title':props.get(pid),
      'needs_to_manifest': (re.search(r'(?is)(trigger|manifest)[^\n]*\n(.{0,700})',notes).group(2).strip() if re.search(r'(?is)(trigger|manifest)',notes) else 'see notes.md'),
      'confirmed_by_me': {'result':conf.get(d,('?',''))[0],'what_i_ran':'lib/confirm_mutant.sh: git worktree of /repo HEAD + git apply patch.diff; cargo test --lib --offline (expect 84 passed / 3 known failures); demo.rs appended to the target file, cargo test --lib --offline <filter>: must FAIL with the patch and PASS without it','details':conf.get(d,('', ''))[1]},
      **({'note':NOTES[d]} if d in NOTES else {}),
      'checks_run_against_it': {k:{'outcome':v[0],'detail':v[1]} for k,v in det.get(d,{}).items()},
    }
    json.dump(meta,open(os.path.join(p,'meta.json'),'w'),indent=1)
    print(d, conf.get(d,('?',))[0], {k:v[0] for k,v in det.get(d,{}).items()})
