//! C18 — reference objects and the register harness yield well-formed, faithful histories.
//!
//! * Specs `Register<u8>`, `WORegister<u8>`, `Vec<u8>`: the hand-optimised `is_valid_step` is
//!   equivalent to `invoke` + compare (verdict, and object state after an accepted step), and
//!   `is_valid_history` accepts exactly the sequences obtained by folding `invoke`.
//! * Client protocol of `RegisterActor` / `WORegisterActor`: one inductive step from every client
//!   state satisfying the invariant, for every incoming message.
//! * Recording hooks `record_invocations` / `record_returns`, run against a recording
//!   `ConsistencyTester` supplied by the harness (the real testers are BTreeMap-bound).
use crate::actor::register::{RegisterActor, RegisterActorState, RegisterMsg};
use crate::actor::write_once_register::{WORegisterActor, WORegisterActorState, WORegisterMsg};
use crate::actor::{Actor, Command, Envelope, Id, Out};
use crate::semantics::register::{Register, RegisterOp, RegisterRet};
use crate::semantics::vec::{VecOp, VecRet};
use crate::semantics::write_once_register::{WORegister, WORegisterOp, WORegisterRet};
use crate::semantics::{ConsistencyTester, SequentialSpec};
use std::borrow::Cow;

// ---- specs -------------------------------------------------------------------------------------

fn any_reg_op() -> RegisterOp<u8> {
    if kani::any() {
        RegisterOp::Write(kani::any())
    } else {
        RegisterOp::Read
    }
}
fn any_reg_ret() -> RegisterRet<u8> {
    if kani::any() {
        RegisterRet::WriteOk
    } else {
        RegisterRet::ReadOk(kani::any())
    }
}

/// `Register<u8>`: for every object, operation and candidate return, `is_valid_step` answers
/// `invoke(op) == ret`, and after an accepted step the object equals the one `invoke` leaves.
#[kani::proof]
fn c18_register_step() {
    let r0 = Register(kani::any::<u8>());
    let op = any_reg_op();
    let ret = any_reg_ret();
    let mut a = r0.clone();
    let want = a.invoke(&op) == ret;
    let mut b = r0.clone();
    let got = b.is_valid_step(&op, &ret);
    assert!(got == want, "C18 Register: is_valid_step is invoke-and-compare");
    if got {
        assert!(a == b, "C18 Register: accepted step leaves the state invoke leaves");
    }
    kani::cover!(got, "accepted step");
    kani::cover!(!got, "rejected step");
}

/// `Register<u8>`: `is_valid_history` over every op/ret sequence of length <= 3 equals the fold
/// of `invoke`.
#[kani::proof]
#[kani::unwind(5)]
fn c18_register_history() {
    let r0 = Register(kani::any::<u8>());
    let n: usize = kani::any();
    kani::assume(n <= 3);
    let ops = [any_reg_op(), any_reg_op(), any_reg_op()];
    let rets = [any_reg_ret(), any_reg_ret(), any_reg_ret()];
    let mut a = r0.clone();
    let mut want = true;
    let mut i = 0;
    while i < n {
        if want && a.invoke(&ops[i]) != rets[i] {
            want = false;
        }
        i += 1;
    }
    let hist: Vec<(RegisterOp<u8>, RegisterRet<u8>)> = match n {
        0 => vec![],
        1 => vec![(ops[0].clone(), rets[0].clone())],
        2 => vec![(ops[0].clone(), rets[0].clone()), (ops[1].clone(), rets[1].clone())],
        _ => vec![(ops[0].clone(), rets[0].clone()), (ops[1].clone(), rets[1].clone()), (ops[2].clone(), rets[2].clone())],
    };
    let mut b = r0.clone();
    assert!(b.is_valid_history(hist) == want, "C18 Register: is_valid_history is the fold of invoke");
    kani::cover!(want && n == 3, "valid history of length 3");
    kani::cover!(!want && n == 3, "invalid history of length 3");
}

fn any_wo_op() -> WORegisterOp<u8> {
    if kani::any() {
        WORegisterOp::Write(kani::any())
    } else {
        WORegisterOp::Read
    }
}
fn any_wo_ret() -> WORegisterRet<u8> {
    let k: u8 = kani::any();
    match k {
        0 => WORegisterRet::WriteOk,
        1 => WORegisterRet::WriteFail,
        _ => WORegisterRet::ReadOk(if kani::any() { Some(kani::any()) } else { None }),
    }
}
fn any_wo() -> WORegister<u8> {
    WORegister(if kani::any() { Some(kani::any()) } else { None })
}

/// `WORegister<u8>`: same equivalence, including the rule that a second different write fails
/// and leaves the first value.
#[kani::proof]
fn c18_woregister_step() {
    let r0 = any_wo();
    let op = any_wo_op();
    let ret = any_wo_ret();
    let mut a = r0.clone();
    let want = a.invoke(&op) == ret;
    let mut b = r0.clone();
    let got = b.is_valid_step(&op, &ret);
    assert!(got == want, "C18 WORegister: is_valid_step is invoke-and-compare");
    if got {
        assert!(a == b, "C18 WORegister: accepted step leaves the state invoke leaves");
    }
    // the write-once rule itself
    if let (WORegisterOp::Write(v), Some(old)) = (&op, &r0.0) {
        assert!(a.0 == Some(*old), "C18 WORegister: a written value is never replaced");
        if v != old {
            assert!(want == (ret == WORegisterRet::WriteFail), "C18 WORegister: a second different write fails");
        }
    }
    kani::cover!(got && matches!(ret, WORegisterRet::WriteFail), "accepted failing write");
    kani::cover!(!got, "rejected step");
}

#[kani::proof]
#[kani::unwind(5)]
fn c18_woregister_history() {
    let r0 = any_wo();
    let n: usize = kani::any();
    kani::assume(n <= 3);
    let ops = [any_wo_op(), any_wo_op(), any_wo_op()];
    let rets = [any_wo_ret(), any_wo_ret(), any_wo_ret()];
    let mut a = r0.clone();
    let mut want = true;
    let mut i = 0;
    while i < n {
        if want && a.invoke(&ops[i]) != rets[i] {
            want = false;
        }
        i += 1;
    }
    let hist: Vec<(WORegisterOp<u8>, WORegisterRet<u8>)> = match n {
        0 => vec![],
        1 => vec![(ops[0].clone(), rets[0].clone())],
        2 => vec![(ops[0].clone(), rets[0].clone()), (ops[1].clone(), rets[1].clone())],
        _ => vec![(ops[0].clone(), rets[0].clone()), (ops[1].clone(), rets[1].clone()), (ops[2].clone(), rets[2].clone())],
    };
    let mut b = r0.clone();
    assert!(b.is_valid_history(hist) == want, "C18 WORegister: is_valid_history is the fold of invoke");
    kani::cover!(want && n == 3, "valid history of length 3");
}

fn any_vec_op() -> VecOp<u8> {
    let k: u8 = kani::any();
    match k {
        0 => VecOp::Push(kani::any()),
        1 => VecOp::Pop,
        _ => VecOp::Len,
    }
}
fn any_vec_ret() -> VecRet<u8> {
    let k: u8 = kani::any();
    match k {
        0 => VecRet::PushOk,
        1 => VecRet::PopOk(if kani::any() { Some(kani::any()) } else { None }),
        _ => VecRet::LenOk(kani::any()),
    }
}
fn vec_n<const N: usize>(c: [u8; 3]) -> Vec<u8> {
    let mut v = Vec::with_capacity(8);
    let mut i = 0;
    while i < N {
        v.push(c[i]);
        i += 1;
    }
    v
}
fn vec_same(a: &Vec<u8>, b: &Vec<u8>) -> bool {
    if a.len() != b.len() {
        return false;
    }
    let mut ok = true;
    let mut i = 0;
    while i < a.len() {
        if a[i] != b[i] {
            ok = false;
        }
        i += 1;
    }
    ok
}

/// `Vec<u8>` (stack): same equivalence for every object of length N.
fn vec_step<const N: usize>() {
    let c: [u8; 3] = kani::any();
    let op = any_vec_op();
    let ret = any_vec_ret();
    let mut a = vec_n::<N>(c);
    let want = a.invoke(&op) == ret;
    let mut b = vec_n::<N>(c);
    let got = b.is_valid_step(&op, &ret);
    assert!(got == want, "C18 Vec: is_valid_step is invoke-and-compare");
    if got {
        assert!(vec_same(&a, &b), "C18 Vec: accepted step leaves the state invoke leaves");
    }
    kani::cover!(got && matches!(op, VecOp::Pop), "accepted pop");
    kani::cover!(!got, "rejected step");
}

#[kani::proof]
#[kani::unwind(6)]
fn c18_vec_step() {
    vec_step::<0>();
    vec_step::<1>();
    vec_step::<2>();
    vec_step::<3>();
}

fn vec_history<const N: usize, const H: usize>() {
    let c: [u8; 3] = kani::any();
    let ops = [any_vec_op(), any_vec_op(), any_vec_op()];
    let rets = [any_vec_ret(), any_vec_ret(), any_vec_ret()];
    let mut a = vec_n::<N>(c);
    let mut want = true;
    let mut i = 0;
    while i < H {
        if want && a.invoke(&ops[i]) != rets[i] {
            want = false;
        }
        i += 1;
    }
    let hist: Vec<(VecOp<u8>, VecRet<u8>)> = match H {
        0 => vec![],
        1 => vec![(ops[0].clone(), rets[0].clone())],
        2 => vec![(ops[0].clone(), rets[0].clone()), (ops[1].clone(), rets[1].clone())],
        _ => vec![(ops[0].clone(), rets[0].clone()), (ops[1].clone(), rets[1].clone()), (ops[2].clone(), rets[2].clone())],
    };
    let mut b = vec_n::<N>(c);
    assert!(b.is_valid_history(hist) == want, "C18 Vec: is_valid_history is the fold of invoke");
    if H > 0 {
        kani::cover!(want, "valid history");
        kani::cover!(!want, "invalid history");
    }
}

#[kani::proof]
#[kani::unwind(6)]
fn c18_vec_history() {
    vec_history::<0, 3>();
    vec_history::<2, 3>();
    vec_history::<1, 2>();
    vec_history::<3, 1>();
    vec_history::<1, 0>();
}

// ---- client protocol ---------------------------------------------------------------------------

/// A server type, only needed to instantiate the harness actors.
#[derive(Clone, Debug)]
pub struct Srv;
impl Actor for Srv {
    type Msg = RegisterMsg<u64, char, u8>;
    type State = u8;
    type Timer = u8;
    type Random = u8;
    fn on_start(&self, _: Id, _: &mut Out<Self>) -> u8 {
        0
    }
}
#[derive(Clone, Debug)]
pub struct WSrv;
impl Actor for WSrv {
    type Msg = WORegisterMsg<u64, char, u8>;
    type State = u8;
    type Timer = u8;
    type Random = u8;
    fn on_start(&self, _: Id, _: &mut Out<Self>) -> u8 {
        0
    }
}

fn any_rmsg() -> RegisterMsg<u64, char, u8> {
    let k: u8 = kani::any();
    match k {
        0 => RegisterMsg::Internal(kani::any()),
        1 => RegisterMsg::Put(kani::any(), kani::any()),
        2 => RegisterMsg::Get(kani::any()),
        3 => RegisterMsg::PutOk(kani::any()),
        _ => RegisterMsg::GetOk(kani::any(), kani::any()),
    }
}
fn any_wmsg() -> WORegisterMsg<u64, char, u8> {
    let k: u8 = kani::any();
    match k {
        0 => WORegisterMsg::Internal(kani::any()),
        1 => WORegisterMsg::Put(kani::any(), kani::any()),
        2 => WORegisterMsg::Get(kani::any()),
        3 => WORegisterMsg::PutOk(kani::any()),
        4 => WORegisterMsg::PutFail(kani::any()),
        _ => WORegisterMsg::GetOk(kani::any(), kani::any()),
    }
}

struct ClientCfg {
    put_count: usize,
    server_count: usize,
    index: u64,
}
fn any_cfg() -> ClientCfg {
    let put_count: usize = kani::any();
    let server_count: usize = kani::any();
    let index: u64 = kani::any();
    // documented set-up: servers first (index >= server_count >= 1); values are letters, so at
    // most 26 clients; bounded so that request ids cannot overflow u64
    kani::assume(put_count <= 1 << 16);
    kani::assume(server_count >= 1 && server_count <= 1 << 16);
    kani::assume(index >= server_count as u64 && index - (server_count as u64) < 26);
    ClientCfg { put_count, server_count, index }
}

/// Start-up of the register client: nothing if there is nothing to put, otherwise exactly one
/// `Put` with request id `1 * index` to a server, and the state records it as outstanding.
#[kani::proof]
#[kani::unwind(3)]
fn c18_register_client_start() {
    let cfg = any_cfg();
    let a: RegisterActor<Srv> = RegisterActor::Client { put_count: cfg.put_count, server_count: cfg.server_count };
    let mut o = Out::new();
    let s = a.on_start(Id::from(cfg.index as usize), &mut o);
    if cfg.put_count == 0 {
        assert!(o.len() == 0, "C18 client with nothing to put sends nothing");
        assert!(matches!(s, RegisterActorState::Client { awaiting: None, op_count: 0 }), "C18 idle client state");
    } else {
        assert!(o.len() == 1, "C18 client starts with exactly one request");
        let ok = match &o[0] {
            Command::Send(dst, RegisterMsg::Put(req, _)) => usize::from(*dst) < cfg.server_count && *req == cfg.index,
            _ => false,
        };
        assert!(ok, "C18 first request is a Put with id 1*index to a server");
        assert!(matches!(s, RegisterActorState::Client { awaiting: Some(r), op_count: 1 } if r == cfg.index), "C18 first request recorded as outstanding");
    }
    kani::cover!(cfg.put_count > 0, "client with puts");
}

/// A client placed before the servers is rejected (must not return).
#[kani::proof]
#[kani::unwind(3)]
fn c18_register_client_start_rejects() {
    let server_count: usize = kani::any();
    let index: usize = kani::any();
    kani::assume(index < server_count);
    let a: RegisterActor<Srv> = RegisterActor::Client { put_count: kani::any(), server_count };
    let mut o = Out::new();
    kani::cover!(true, "reached on_start");
    let _ = a.on_start(Id::from(index), &mut o);
    kani::cover!(true, "EXPECT-UNSAT client with an id below server_count started");
}

/// One inductive step of the register client from every state satisfying the invariant
/// `awaiting = Some(r) => r = op_count * index`: at most one command; it is sent only on the
/// matching reply to the outstanding request, goes to a server, carries the fresh id
/// `(op_count+1) * index`; everything else changes nothing.
#[kani::proof]
#[kani::unwind(3)]
fn c18_register_client_step() {
    let cfg = any_cfg();
    let a: RegisterActor<Srv> = RegisterActor::Client { put_count: cfg.put_count, server_count: cfg.server_count };
    let op_count: u64 = kani::any();
    kani::assume(op_count <= (1 << 16) + 2);
    let awaiting: Option<u64> = if kani::any() { Some(op_count * cfg.index) } else { None };
    let s0: RegisterActorState<u8, u64> = RegisterActorState::Client { awaiting, op_count };
    let msg = any_rmsg();
    let src = Id::from(kani::any::<usize>());
    let mut c = Cow::Borrowed(&s0);
    let mut o: Out<RegisterActor<Srv>> = Out::new();
    a.on_msg(Id::from(cfg.index as usize), &mut c, src, msg.clone(), &mut o);
    let is_matching_putok = matches!((&msg, awaiting), (RegisterMsg::PutOk(r), Some(w)) if *r == w);
    let is_matching_getok = matches!((&msg, awaiting), (RegisterMsg::GetOk(r, _), Some(w)) if *r == w);
    assert!(o.len() <= 1, "C18 client emits at most one request per received message");
    if is_matching_putok {
        let fresh = (op_count + 1) * cfg.index;
        assert!(o.len() == 1, "C18 client issues its next request on the matching PutOk");
        let ok = match &o[0] {
            Command::Send(dst, RegisterMsg::Put(req, _)) => usize::from(*dst) < cfg.server_count && *req == fresh && op_count < cfg.put_count as u64,
            Command::Send(dst, RegisterMsg::Get(req)) => usize::from(*dst) < cfg.server_count && *req == fresh && op_count >= cfg.put_count as u64,
            _ => false,
        };
        assert!(ok, "C18 next request: Put while puts remain, then Get; to a server; id (op_count+1)*index");
        // freshness: ids are k*index for k = 1, 2, ... with index >= 1, so the new id exceeds every
        // earlier one (stated on index to keep the query linear; the product itself is checked
        // for overflow by Kani in the real code)
        assert!(cfg.index >= 1, "C18 request ids k*index are strictly increasing in k (index >= 1), hence fresh");
        assert!(matches!(&*c, RegisterActorState::Client { awaiting: Some(r), op_count: n } if *r == fresh && *n == op_count + 1), "C18 new request recorded as the outstanding one");
    } else if is_matching_getok {
        assert!(o.len() == 0, "C18 client sends nothing on GetOk");
        assert!(matches!(&*c, RegisterActorState::Client { awaiting: None, op_count: n } if *n == op_count + 1), "C18 client done after GetOk");
    } else {
        assert!(o.len() == 0, "C18 non-matching message triggers no request");
        assert!(matches!(c, Cow::Borrowed(_)), "C18 non-matching message changes nothing");
    }
    kani::cover!(is_matching_putok && op_count < cfg.put_count as u64, "next put");
    kani::cover!(is_matching_putok && op_count >= cfg.put_count as u64, "get after puts");
    kani::cover!(is_matching_getok, "getok");
    kani::cover!(awaiting.is_some() && matches!(msg, RegisterMsg::PutOk(_)) && !is_matching_putok, "stale PutOk ignored");
}

#[kani::proof]
#[kani::unwind(3)]
fn c18_woregister_client_start() {
    let cfg = any_cfg();
    let a: WORegisterActor<WSrv> = WORegisterActor::Client { put_count: cfg.put_count, server_count: cfg.server_count };
    let mut o = Out::new();
    let s = a.on_start(Id::from(cfg.index as usize), &mut o);
    if cfg.put_count == 0 {
        assert!(o.len() == 0, "C18 WO client with nothing to put sends nothing");
        assert!(matches!(s, WORegisterActorState::Client { awaiting: None, op_count: 0 }), "C18 WO idle client state");
    } else {
        assert!(o.len() == 1, "C18 WO client starts with exactly one request");
        let ok = match &o[0] {
            Command::Send(dst, WORegisterMsg::Put(req, _)) => usize::from(*dst) < cfg.server_count && *req == cfg.index,
            _ => false,
        };
        assert!(ok, "C18 WO first request is a Put with id 1*index to a server");
        assert!(matches!(s, WORegisterActorState::Client { awaiting: Some(r), op_count: 1 } if r == cfg.index), "C18 WO first request recorded as outstanding");
    }
    kani::cover!(cfg.put_count > 0, "client with puts");
}

#[kani::proof]
#[kani::unwind(3)]
fn c18_woregister_client_step() {
    let cfg = any_cfg();
    let a: WORegisterActor<WSrv> = WORegisterActor::Client { put_count: cfg.put_count, server_count: cfg.server_count };
    let op_count: u64 = kani::any();
    kani::assume(op_count <= (1 << 16) + 2);
    let awaiting: Option<u64> = if kani::any() { Some(op_count * cfg.index) } else { None };
    let s0: WORegisterActorState<u8, u64> = WORegisterActorState::Client { awaiting, op_count };
    let msg = any_wmsg();
    let src = Id::from(kani::any::<usize>());
    let mut c = Cow::Borrowed(&s0);
    let mut o: Out<WORegisterActor<WSrv>> = Out::new();
    a.on_msg(Id::from(cfg.index as usize), &mut c, src, msg.clone(), &mut o);
    let is_matching_put_reply = matches!((&msg, awaiting), (WORegisterMsg::PutOk(r), Some(w)) | (WORegisterMsg::PutFail(r), Some(w)) if *r == w);
    let is_matching_getok = matches!((&msg, awaiting), (WORegisterMsg::GetOk(r, _), Some(w)) if *r == w);
    assert!(o.len() <= 1, "C18 WO client emits at most one request per received message");
    if is_matching_put_reply {
        let fresh = (op_count + 1) * cfg.index;
        assert!(o.len() == 1, "C18 WO client issues its next request on the matching PutOk/PutFail");
        let ok = match &o[0] {
            Command::Send(dst, WORegisterMsg::Put(req, _)) => usize::from(*dst) < cfg.server_count && *req == fresh && op_count < cfg.put_count as u64,
            Command::Send(dst, WORegisterMsg::Get(req)) => usize::from(*dst) < cfg.server_count && *req == fresh && op_count >= cfg.put_count as u64,
            _ => false,
        };
        assert!(ok, "C18 WO next request: Put while puts remain, then Get; to a server; id (op_count+1)*index");
        assert!(matches!(&*c, WORegisterActorState::Client { awaiting: Some(r), op_count: n } if *r == fresh && *n == op_count + 1), "C18 WO new request recorded as the outstanding one");
    } else if is_matching_getok {
        assert!(o.len() == 0, "C18 WO client sends nothing on GetOk");
        assert!(matches!(&*c, WORegisterActorState::Client { awaiting: None, op_count: n } if *n == op_count + 1), "C18 WO client done after GetOk");
    } else {
        assert!(o.len() == 0, "C18 WO non-matching message triggers no request");
        assert!(matches!(c, Cow::Borrowed(_)), "C18 WO non-matching message changes nothing");
    }
    kani::cover!(is_matching_put_reply && matches!(msg, WORegisterMsg::PutFail(_)), "next request after PutFail");
    kani::cover!(is_matching_getok, "getok");
}

// ---- recording hooks ---------------------------------------------------------------------------

/// A `ConsistencyTester` that records the calls it receives (kind, thread, payload).
#[derive(Clone, PartialEq, Debug)]
pub struct RecTester {
    n: usize,
    log: [(u8, u64, u8, u32); 4],
}
impl RecTester {
    fn new() -> Self {
        RecTester { n: 0, log: [(0, 0, 0, 0); 4] }
    }
    fn push(&mut self, e: (u8, u64, u8, u32)) {
        if self.n < 4 {
            self.log[self.n] = e;
        }
        self.n += 1;
    }
}
impl ConsistencyTester<Id, Register<char>> for RecTester {
    fn on_invoke(&mut self, t: Id, op: RegisterOp<char>) -> Result<&mut Self, String> {
        let e = match op {
            RegisterOp::Write(v) => (1, usize::from(t) as u64, 1, v as u32),
            RegisterOp::Read => (1, usize::from(t) as u64, 2, 0),
        };
        self.push(e);
        Ok(self)
    }
    fn on_return(&mut self, t: Id, ret: RegisterRet<char>) -> Result<&mut Self, String> {
        let e = match ret {
            RegisterRet::WriteOk => (2, usize::from(t) as u64, 1, 0),
            RegisterRet::ReadOk(v) => (2, usize::from(t) as u64, 2, v as u32),
        };
        self.push(e);
        Ok(self)
    }
    fn is_consistent(&self) -> bool {
        true
    }
}
impl ConsistencyTester<Id, WORegister<char>> for RecTester {
    fn on_invoke(&mut self, t: Id, op: WORegisterOp<char>) -> Result<&mut Self, String> {
        let e = match op {
            WORegisterOp::Write(v) => (1, usize::from(t) as u64, 1, v as u32),
            WORegisterOp::Read => (1, usize::from(t) as u64, 2, 0),
        };
        self.push(e);
        Ok(self)
    }
    fn on_return(&mut self, t: Id, ret: WORegisterRet<char>) -> Result<&mut Self, String> {
        let e = match ret {
            WORegisterRet::WriteOk => (2, usize::from(t) as u64, 1, 0),
            WORegisterRet::WriteFail => (2, usize::from(t) as u64, 3, 0),
            WORegisterRet::ReadOk(Some(v)) => (2, usize::from(t) as u64, 2, v as u32),
            WORegisterRet::ReadOk(None) => (2, usize::from(t) as u64, 4, 0),
        };
        self.push(e);
        Ok(self)
    }
    fn is_consistent(&self) -> bool {
        true
    }
}

/// `record_invocations` turns exactly the client-visible calls (`Put`, `Get`) into invocations by
/// the sending actor; `record_returns` turns exactly the replies (`PutOk`, `GetOk`) into returns
/// to the receiving actor; other messages record nothing; the given history is never altered.
#[kani::proof]
#[kani::unwind(6)]
fn c18_register_recording_hooks() {
    let msg = any_rmsg();
    let src = Id::from(kani::any::<usize>());
    let dst = Id::from(kani::any::<usize>());
    let h0 = RecTester::new();
    let env = Envelope { src, dst, msg: &msg };
    let inv = RegisterMsg::record_invocations(&(), &h0, env);
    let env = Envelope { src, dst, msg: &msg };
    let ret = RegisterMsg::record_returns(&(), &h0, env);
    assert!(h0 == RecTester::new(), "C18 hooks never alter the history they are given");
    let s = usize::from(src) as u64;
    let d = usize::from(dst) as u64;
    match &msg {
        RegisterMsg::Put(_, v) => {
            let h = inv.expect("C18 Put is recorded as an invocation");
            assert!(h.n == 1 && h.log[0] == (1, s, 1, *v as u32), "C18 Put recorded as Write(value) invoked by the sender");
            assert!(ret.is_none(), "C18 Put is not a return");
        }
        RegisterMsg::Get(_) => {
            let h = inv.expect("C18 Get is recorded as an invocation");
            assert!(h.n == 1 && h.log[0] == (1, s, 2, 0), "C18 Get recorded as Read invoked by the sender");
            assert!(ret.is_none(), "C18 Get is not a return");
        }
        RegisterMsg::PutOk(_) => {
            let h = ret.expect("C18 PutOk is recorded as a return");
            assert!(h.n == 1 && h.log[0] == (2, d, 1, 0), "C18 PutOk recorded as WriteOk returned to the receiver");
            assert!(inv.is_none(), "C18 PutOk is not an invocation");
        }
        RegisterMsg::GetOk(_, v) => {
            let h = ret.expect("C18 GetOk is recorded as a return");
            assert!(h.n == 1 && h.log[0] == (2, d, 2, *v as u32), "C18 GetOk recorded as ReadOk(value) returned to the receiver");
            assert!(inv.is_none(), "C18 GetOk is not an invocation");
        }
        RegisterMsg::Internal(_) => {
            assert!(inv.is_none() && ret.is_none(), "C18 internal messages record nothing");
        }
    }
    kani::cover!(matches!(msg, RegisterMsg::GetOk(..)), "GetOk");
}

#[kani::proof]
#[kani::unwind(6)]
fn c18_woregister_recording_hooks() {
    let msg = any_wmsg();
    let src = Id::from(kani::any::<usize>());
    let dst = Id::from(kani::any::<usize>());
    let h0 = RecTester::new();
    let env = Envelope { src, dst, msg: &msg };
    let inv = WORegisterMsg::record_invocations(&(), &h0, env);
    let env = Envelope { src, dst, msg: &msg };
    let ret = WORegisterMsg::record_returns(&(), &h0, env);
    assert!(h0 == RecTester::new(), "C18 WO hooks never alter the history they are given");
    let s = usize::from(src) as u64;
    let d = usize::from(dst) as u64;
    match &msg {
        WORegisterMsg::Put(_, v) => {
            let h = inv.expect("C18 WO Put is recorded as an invocation");
            assert!(h.n == 1 && h.log[0] == (1, s, 1, *v as u32), "C18 WO Put recorded as Write(value) invoked by the sender");
            assert!(ret.is_none(), "C18 WO Put is not a return");
        }
        WORegisterMsg::Get(_) => {
            let h = inv.expect("C18 WO Get is recorded as an invocation");
            assert!(h.n == 1 && h.log[0] == (1, s, 2, 0), "C18 WO Get recorded as Read invoked by the sender");
            assert!(ret.is_none(), "C18 WO Get is not a return");
        }
        WORegisterMsg::PutOk(_) => {
            let h = ret.expect("C18 WO PutOk is recorded as a return");
            assert!(h.n == 1 && h.log[0] == (2, d, 1, 0), "C18 WO PutOk recorded as WriteOk returned to the receiver");
            assert!(inv.is_none(), "C18 WO PutOk is not an invocation");
        }
        WORegisterMsg::PutFail(_) => {
            let h = ret.expect("C18 WO PutFail is recorded as a return");
            assert!(h.n == 1 && h.log[0] == (2, d, 3, 0), "C18 WO PutFail recorded as WriteFail returned to the receiver");
            assert!(inv.is_none(), "C18 WO PutFail is not an invocation");
        }
        WORegisterMsg::GetOk(_, v) => {
            let h = ret.expect("C18 WO GetOk is recorded as a return");
            assert!(h.n == 1 && h.log[0] == (2, d, 2, *v as u32), "C18 WO GetOk recorded as ReadOk(Some(value)) returned to the receiver");
            assert!(inv.is_none(), "C18 WO GetOk is not an invocation");
        }
        WORegisterMsg::Internal(_) => {
            assert!(inv.is_none() && ret.is_none(), "C18 WO internal messages record nothing");
        }
    }
    kani::cover!(matches!(msg, WORegisterMsg::PutFail(..)), "PutFail");
}

/// Vacuity twin.
#[kani::proof]
fn c18_twin_must_fail() {
    let r0 = Register(kani::any::<u8>());
    let op = any_reg_op();
    let ret = any_reg_ret();
    let mut b = r0.clone();
    assert!(b.is_valid_step(&op, &ret), "TWIN every step is valid (false)");
}
