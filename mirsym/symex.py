"""Symbolic executor for MIR bodies (subset), producing atomic-segment summaries.

Values live in a heap of immutable tagged tuples addressed by integer cell ids, so that forking a
path is a dictionary copy.  Integers are z3 Ints with explicit machine-width checks where the MIR
has them (`AddWithOverflow`+`assert`), Booleans are z3 Bools.  Library calls are dispatched to
small models (see `LIB`); an unknown callee aborts the run (`Unsupported`).
"""
import itertools
import time
import re
import z3

from mir import Body, Place, Operand, Unsupported

USIZE_MAX = 2 ** 64 - 1


def I(v):
    return ("int", v if isinstance(v, z3.ExprRef) else z3.IntVal(v))


def B(v):
    return ("bool", v if isinstance(v, z3.ExprRef) else z3.BoolVal(v))


UNIT = ("opaque", "unit")
SOLVER_STATS = {"time": 0.0, "queries": 0}  # wall time inside z3 check() calls of the static obligations and path pruning


class InfeasiblePath(Exception):
    """the current path contradicts itself (e.g. a variant is viewed as another variant)"""


class Outcome:
    """End of one atomic segment along one path."""

    def __init__(self, kind, st, **kw):
        self.kind = kind  # return | wait | sleep | panic | bound
        self.st = st
        self.info = kw

    def __repr__(self):
        return f"<{self.kind} pc={z3.simplify(z3.And(*self.st.pc)) if self.st.pc else True} ev={self.st.events} {self.info}>"


class State:
    def __init__(self):
        self.heap = {}
        self.locals = {}
        self.pc = []  # path condition: list of z3 Bools
        self.events = []  # ordered sync events of this segment
        self.lock_held = 0
        self.discarded = z3.IntVal(0)  # jobs destroyed (dropped deques, cleared batches)
        self.next_id = itertools.count(1)
        self.steps = 0
        self.frames = []  # suspended callers: (body_name, locals, dst_place, ret_bb)
        self.body_name = None
        self.handles = {}

    def clone(self):
        s = State.__new__(State)
        s.heap = dict(self.heap)
        s.locals = dict(self.locals)
        s.pc = list(self.pc)
        s.events = list(self.events)
        s.lock_held = self.lock_held
        s.discarded = self.discarded
        s.next_id = self.next_id  # shared counter is fine: ids stay unique
        s.steps = self.steps
        s.frames = [(b, dict(l), d, r) for (b, l, d, r) in self.frames]
        s.body_name = self.body_name
        s.handles = dict(self.handles)
        return s

    def alloc(self, v):
        i = next(self.next_id)
        self.heap[i] = v
        return i


class Executor:
    def __init__(self, bodies, solver_timeout_ms=20000, loop_bound=8):
        self.bodies = bodies  # name-suffix -> Body
        self.loop_bound = loop_bound
        self.solver = z3.Solver()
        self.solver.set("timeout", solver_timeout_ms)
        self.queries = 0
        self.fresh = itertools.count()
        self.base_constraints = []

    # ---- feasibility ------------------------------------------------------------------------
    def feasible(self, st, extra):
        self.queries += 1
        self.solver.push()
        try:
            self.solver.add(*self.base_constraints)
            self.solver.add(*st.pc)
            self.solver.add(extra)
            _t = time.time()
            r = self.solver.check()
            SOLVER_STATS["time"] += time.time() - _t
            SOLVER_STATS["queries"] += 1
            if r == z3.unknown:
                raise Unsupported("solver returned unknown on a path-feasibility query")
            return r == z3.sat
        finally:
            self.solver.pop()

    def fresh_int(self, name):
        return z3.Int(f"{name}!{next(self.fresh)}")

    def fresh_bool(self, name):
        return z3.Bool(f"{name}!{next(self.fresh)}")

    # ---- places -------------------------------------------------------------------------------
    def cell_of(self, st, place: Place, create=True):
        if place.local not in st.locals:
            st.locals[place.local] = st.alloc(("uninit",))
        c = st.locals[place.local]
        for p in place.proj:
            v = st.heap[c]
            if p[0] == "deref":
                if v[0] in ("ref", "arc", "box"):
                    c = v[1]
                elif v[0] == "guard":
                    c = st.heap[v[1]][1]  # guard -> mutex cell -> payload cell
                else:
                    raise Unsupported(f"deref of {v[0]} at {place}")
            elif p[0] == "field":
                if v[0] == "uninit":
                    v = ("struct", ())
                if v[0] == "struct":
                    d = dict(v[1])
                    if p[1] not in d:
                        d[p[1]] = st.alloc(("uninit",))
                        st.heap[c] = ("struct", tuple(sorted(d.items(), key=lambda kv: str(kv[0])))) + tuple(v[2:])
                    c = d[p[1]]
                elif v[0] == "opt_payload":
                    c = v[1]
                else:
                    raise Unsupported(f"field {p[1]} of {v[0]} at {place}")
            elif p[0] == "downcast":
                if v[0] == "opt" and p[1] == "Some":
                    # payload viewed as a one-field struct
                    c = st.alloc(("opt_payload", v[2]))
                else:
                    raise Unsupported(f"downcast {p[1]} of {v[0]} at {place}")
            else:
                raise Unsupported(f"projection {p} at {place}")
        return c

    def read(self, st, op: Operand):
        if op.kind == "const":
            v, ty = op.const
            if ty == "bool":
                return B(v)
            if ty == "unit":
                return UNIT
            if ty == "opaque":
                return ("opaque", v)
            return I(v)
        c = self.cell_of(st, op.place)
        v = st.heap[c]
        if v[0] == "opt_payload":
            v = st.heap[v[1]]
        if v[0] == "uninit":
            raise Unsupported(f"read of uninitialised {op.place}")
        if op.kind == "move":
            pass  # moved-from cells are never read again in well-formed MIR
        return v

    def write(self, st, place: Place, v):
        c = self.cell_of(st, place)
        if st.heap[c][0] == "opt_payload":
            c = st.heap[c][1]
        st.heap[c] = v

    # ---- rvalues ------------------------------------------------------------------------------
    def eval_rv(self, st, rv):
        k = rv[0]
        if k == "use":
            return self.read(st, rv[1])
        if k == "ref":
            return ("ref", self.cell_of(st, rv[1]))
        if k == "bin":
            a = self.read(st, rv[2])
            b = self.read(st, rv[3])
            return self.binop(rv[1], a, b)
        if k == "cbin":
            a = self.read(st, rv[2])[1]
            b = self.read(st, rv[3])[1]
            if rv[1] == "Add":
                r = a + b
                ov = r > USIZE_MAX
            elif rv[1] == "Sub":
                r = a - b
                ov = r < 0
            else:
                r = a * b
                ov = r > USIZE_MAX
            return ("struct", ((0, st.alloc(I(r))), (1, st.alloc(B(ov)))))
        if k == "un":
            a = self.read(st, rv[2])
            if rv[1] == "Not" and a[0] == "bool":
                return B(z3.Not(a[1]))
            raise Unsupported(f"unary {rv[1]} on {a[0]}")
        if k == "discr":
            c = self.cell_of(st, rv[1])
            v = st.heap[c]
            if v[0] == "opt":
                return I(z3.If(v[1], 1, 0))
            raise Unsupported(f"discriminant of {v[0]}")
        if k == "agg":
            name, fields = rv[1], rv[2]
            if name == "tuple":
                return ("struct", tuple((i, st.alloc(self.read(st, o))) for i, o in enumerate(fields)))
            if name == "Some":
                return ("opt", z3.BoolVal(True), st.alloc(self.read(st, fields[0])))
            if name == "None":
                return ("opt", z3.BoolVal(False), st.alloc(("uninit",)))
            if isinstance(fields, dict):
                # struct / closure: fields by declaration order are addressed by index in places, so
                # keep both the name and the positional index
                cells = []
                for i, (fname, o) in enumerate(fields.items()):
                    cells.append((i, st.alloc(self.read(st, o))))
                return ("struct", tuple(cells), name, tuple(fields.keys()))
            raise Unsupported(f"aggregate {name}")
        if k == "cast":
            return self.read(st, rv[1])
        if k == "unsupported":
            return self.unsupported_rvalue(st, rv)
        raise Unsupported(f"rvalue {rv}")

    def unsupported_rvalue(self, st, rv):
        raise Unsupported(rv[1])

    def binop(self, op, a, b):
        if a[0] == "int" and b[0] == "int":
            x, y = a[1], b[1]
            if op == "Eq":
                return B(x == y)
            if op == "Ne":
                return B(x != y)
            if op == "Lt":
                return B(x < y)
            if op == "Le":
                return B(x <= y)
            if op == "Gt":
                return B(x > y)
            if op == "Ge":
                return B(x >= y)
            if op == "Add":
                return I((x + y) % (USIZE_MAX + 1))
            if op == "Sub":
                return I((x - y) % (USIZE_MAX + 1))
            if op == "Div":
                return I(x / y)
            if op == "Rem":
                return I(x % y)
        if a[0] == "bool" and b[0] == "bool":
            if op == "Eq":
                return B(a[1] == b[1])
            if op == "Ne":
                return B(a[1] != b[1])
            if op == "BitAnd":
                return B(z3.And(a[1], b[1]))
            if op == "BitOr":
                return B(z3.Or(a[1], b[1]))
        raise Unsupported(f"binop {op} on {a[0]},{b[0]}")

    # ---- running ------------------------------------------------------------------------------
    def run(self, body: Body, st: State, bb=0, visits=None):
        """DFS over paths from block `bb`; returns a list of Outcomes."""
        out = []
        st.body_name = self.short(body)
        stack = [(st, bb, visits or {})]
        while stack:
            st, bb, visits = stack.pop()
            body = self.bodies[st.body_name]
            entered = False
            while True:
                if entered and not st.frames and bb in getattr(self, "stop_blocks", ()):
                    out.append(Outcome("reach", st, bb=bb))
                    break
                hv = getattr(self, "loop_havoc", None)
                if hv and not st.frames and bb in hv:
                    hk = ("havoc", st.body_name, bb)
                    if visits.get(hk):
                        out.append(Outcome("cut", st, bb=bb))
                        break
                    visits = dict(visits)
                    visits[hk] = 1
                    self.apply_havoc(st, body, hv[bb])
                entered = True
                st.steps += 1
                if st.steps > 4000:
                    raise Unsupported(f"step budget exceeded in {body.name}")
                visits = dict(visits)
                vk = (st.body_name, len(st.frames), bb)
                visits[vk] = visits.get(vk, 0) + 1
                if visits[vk] > self.loop_bound:
                    raise Unsupported(f"loop bound {self.loop_bound} exceeded at bb{bb} of {body.name} (raise the bound or tighten the state domain)")
                blk = body.blocks[bb]
                try:
                    for a in blk.stmts:
                        self.write(st, a.dst, self.eval_rv(st, a.rv))
                except InfeasiblePath:
                    break
                t = blk.term
                if t.kind == "goto":
                    bb = t.args["target"]
                    continue
                if t.kind == "return":
                    rv = st.heap.get(st.locals.get(0, -1), UNIT)
                    if st.frames:
                        # return into the suspended caller (a helper of the same module)
                        cname, clocals, dst, ret_bb = st.frames.pop()
                        st.locals = clocals
                        st.body_name = cname
                        body = self.bodies[cname]
                        if dst is not None:
                            self.write(st, dst, rv)
                        bb = ret_bb
                        continue
                    out.append(Outcome("return", st, ret=rv))
                    break
                if t.kind == "unreachable":
                    raise Unsupported(f"reached `unreachable` in {body.name} bb{bb}")
                if t.kind == "resume":
                    out.append(Outcome("panic", st))
                    break
                if t.kind == "switch":
                    v = self.read(st, t.args["op"])
                    if v[0] == "opaque" and getattr(self, "trust_unreachable", False):
                        v = I(self.fresh_int("switch"))  # lenient executor: an arbitrary scrutinee
                    succ = []
                    if v[0] == "bool":
                        cases = [(k, (v[1] if k else z3.Not(v[1]))) for k, _ in t.args["arms"]]
                        taken = z3.Or(*[c for _, c in cases]) if cases else z3.BoolVal(False)
                        for (k, tgt), (_, c) in zip(t.args["arms"], cases):
                            succ.append((c, tgt))
                        if t.args["otherwise"] is not None:
                            succ.append((z3.Not(taken), t.args["otherwise"]))
                    elif v[0] == "int":
                        conds = []
                        for k, tgt in t.args["arms"]:
                            succ.append((v[1] == k, tgt))
                            conds.append(v[1] == k)
                        if t.args["otherwise"] is not None and not (getattr(self, "trust_unreachable", False) and body.blocks[t.args["otherwise"]].term.kind == "unreachable"):
                            succ.append((z3.Not(z3.Or(*conds)) if conds else z3.BoolVal(True), t.args["otherwise"]))
                    else:
                        raise Unsupported(f"switch on {v[0]}")
                    live = []
                    for c, tgt in succ:
                        c = z3.simplify(c)
                        if z3.is_false(c):
                            continue
                        if z3.is_true(c) or self.feasible(st, c):
                            live.append((c, tgt))
                    if not live:
                        break  # infeasible path
                    for c, tgt in live[1:]:
                        s2 = st.clone()
                        if not z3.is_true(c):
                            s2.pc.append(c)
                        stack.append((s2, tgt, visits))
                    c, tgt = live[0]
                    if not z3.is_true(c):
                        st.pc.append(c)
                    bb = tgt
                    continue
                if t.kind == "assert":
                    v = self.read(st, t.args["cond"])
                    ok = z3.Not(v[1]) if t.args["neg"] else v[1]
                    ok = z3.simplify(ok)
                    if not z3.is_true(ok) and self.feasible(st, z3.Not(ok)):
                        s2 = st.clone()
                        s2.pc.append(z3.Not(ok))
                        uw = t.args["targets"].get("unwind", "continue")
                        m = re.match(r"bb(\d+)", uw) if isinstance(uw, str) else None
                        if m:
                            stack.append((s2, int(m.group(1)), visits))
                        else:
                            out.append(Outcome("panic", s2, msg=t.args["msg"]))
                        if not self.feasible(st, ok):
                            break
                        st.pc.append(ok)
                    bb = t.args["targets"]["success"]
                    continue
                if t.kind == "drop":
                    c = self.cell_of(st, t.args["place"])
                    r = self.drop_value(st, st.heap[c], body, t)
                    if r is not None:
                        out.append(Outcome(r, st, resume=t.args["targets"].get("return")))
                        break
                    bb = t.args["targets"]["return"]
                    continue
                if t.kind == "call":
                    self.extra = []
                    res = self.call(st, body, t)
                    out.extend(self.extra)
                    self.extra = []
                    if isinstance(res, tuple) and res and res[0] == "enter":
                        # interprocedural step into another body of the module
                        _, callee, args = res
                        st.frames.append((st.body_name, st.locals, t.args["dst"], t.args["targets"].get("return")))
                        cb = self.bodies[callee]
                        st.locals = {}
                        for pno, av in zip(cb.params, args):
                            st.locals[pno] = st.alloc(av)
                        st.body_name = callee
                        body = cb
                        bb = 0
                        continue
                    if isinstance(res, Outcome):
                        out.append(res)
                        break
                    if res == "diverge":
                        break
                    if t.args["dst"] is not None:
                        self.write(st, t.args["dst"], res)
                    if "return" not in t.args["targets"]:
                        break
                    bb = t.args["targets"]["return"]
                    continue
                raise Unsupported(f"terminator {t.kind}")
        return out

    def drop_value(self, st, v, body, t):
        if v[0] == "guard":
            st.events.append(("unlock",))
            st.lock_held -= 1
            return None
        if v[0] == "deque":
            st.discarded = st.discarded + v[1]
            return None
        if v[0] == "opt":
            pv = st.heap.get(v[2], ("uninit",))
            if pv[0] == "deque":
                st.discarded = st.discarded + z3.If(v[1], pv[1], 0)
            return None
        if v[0] == "struct" and len(v) > 2 and "closure" in v[2]:
            # dropping the closure environment drops the captured JobBroker: its Drop impl is a
            # separate critical section, scheduled by the harness
            return "return_drop_broker"
        if v[0] in ("int", "bool", "opaque", "uninit", "ref", "struct", "range", "dur", "res"):
            return None
        raise Unsupported(f"drop of {v[0]} in {body.name}: {t.text}")

    @staticmethod
    def short(body):
        return body.name.split(">::")[-1]

    # ---- library models -----------------------------------------------------------------------
    def call(self, st, body, t):
        f = t.args["func"]
        args = [self.read(st, a) for a in t.args["args"]]
        ret_bb = t.args["targets"].get("return")
        m = re.search(r"JobBroker::<[^()]*>::(\w+)$", f) or re.search(r"^job_market::.*>::(\w+)$", f)
        if m and m.group(1) in self.bodies and m.group(1) not in ("new", "clone", "drop"):
            if len(st.frames) > 4:
                raise Unsupported("call depth > 4 inside job_market")
            return ("enter", m.group(1), args)

        def deref(v):
            if v[0] in ("ref", "arc", "box"):
                return v[1]
            raise Unsupported(f"expected reference, got {v[0]} in call {f}")

        if re.search(r"as Deref>::deref$", f) or re.search(r"as DerefMut>::deref_mut$", f):
            tgt = st.heap[deref(args[0])]
            if tgt[0] == "arc":
                return ("ref", tgt[1])
            if tgt[0] == "guard":
                return ("ref", st.heap[tgt[1]][1])
            raise Unsupported(f"deref of {tgt[0]} via {f}")
        if re.search(r"Mutex::<.*>::lock$", f):
            if st.lock_held:
                raise Unsupported("re-entrant lock")
            st.events.append(("lock",))
            st.lock_held += 1
            return ("guard", deref(args[0]))
        if f.endswith("Condvar::notify_one"):
            st.events.append(("notify_one",))
            return ("opaque", "bool")
        if f.endswith("Condvar::notify_all"):
            st.events.append(("notify_all",))
            return ("opaque", "usize")
        if re.search(r"Condvar::wait::<.*>$", f) or f.endswith("Condvar::wait"):
            if not st.lock_held:
                raise Unsupported("wait without the lock")
            st.events.append(("wait",))
            return Outcome("wait", st, resume=ret_bb, resume_body=st.body_name)
        if re.fullmatch(r"(std::thread::)?sleep", f):
            st.events.append(("sleep", bool(st.lock_held)))
            return Outcome("sleep", st, resume=ret_bb, resume_body=st.body_name, lock_held=bool(st.lock_held))
        if re.match(r"^(std|core)::mem::replace::<", f):
            c = deref(args[0])
            old = st.heap[c]
            st.heap[c] = args[1]
            return old
        if re.match(r"^(std|core)::mem::swap::<", f):
            a, b = deref(args[0]), deref(args[1])
            st.heap[a], st.heap[b] = st.heap[b], st.heap[a]
            return UNIT
        if re.match(r"^(std|core)::mem::take::<(bool|usize)>", f):
            c = deref(args[0])
            old = st.heap[c]
            st.heap[c] = B(False) if old[0] == "bool" else I(0)
            return old
        if re.match(r"^std::mem::drop::<", f):
            r = self.drop_value(st, args[0], body, t)
            if r is not None:
                return Outcome(r, st, resume=ret_bb)
            return UNIT
        def ival(v):
            if v[0] == "int":
                return v[1]
            if v[0] in ("ref",):
                w = st.heap[v[1]]
                if w[0] == "int":
                    return w[1]
            raise Unsupported(f"integer expected in call {f}, got {v[0]}")

        if re.fullmatch(r"<usize as Ord>::min|core::cmp::Ord::min|std::cmp::Ord::min|core::num::<impl usize>::min", f):
            a, b = ival(args[0]), ival(args[1])
            return I(z3.If(a <= b, a, b))
        if re.fullmatch(r"<usize as Ord>::max|core::cmp::Ord::max|std::cmp::Ord::max|core::num::<impl usize>::max", f):
            a, b = ival(args[0]), ival(args[1])
            return I(z3.If(a >= b, a, b))
        mm = re.fullmatch(r"<usize as PartialOrd>::(lt|le|gt|ge)|<usize as PartialEq>::(eq|ne)", f)
        if mm:
            a, b = ival(args[0]), ival(args[1])
            op = mm.group(1) or mm.group(2)
            return B({"lt": a < b, "le": a <= b, "gt": a > b, "ge": a >= b, "eq": a == b, "ne": a != b}[op])
        if f.endswith("<impl usize>::checked_sub"):
            a, b = ival(args[0]), ival(args[1])
            return ("opt", a >= b, st.alloc(I(a - b)))
        if f.endswith("<impl usize>::checked_add"):
            a, b = ival(args[0]), ival(args[1])
            return ("opt", a + b <= USIZE_MAX, st.alloc(I(a + b)))
        if f.endswith("<impl usize>::wrapping_sub"):
            return I((ival(args[0]) - ival(args[1])) % (USIZE_MAX + 1))
        if f.endswith("<impl usize>::wrapping_add"):
            return I((ival(args[0]) + ival(args[1])) % (USIZE_MAX + 1))
        if f.endswith("<impl usize>::saturating_add"):
            r = ival(args[0]) + ival(args[1])
            return I(z3.If(r > USIZE_MAX, USIZE_MAX, r))
        if re.search(r"Option::<.*>::is_some$", f):
            return B(st.heap[deref(args[0])][1])
        if re.search(r"Option::<.*>::is_none$", f):
            return B(z3.Not(st.heap[deref(args[0])][1]))
        if f.endswith("saturating_sub"):
            a, b = args[0][1], args[1][1]
            return I(z3.If(a >= b, a - b, 0))
        if re.fullmatch(r"std::cmp::min::<usize>", f):
            a, b = args[0][1], args[1][1]
            return I(z3.If(a <= b, a, b))
        if re.fullmatch(r"std::cmp::max::<usize>", f):
            a, b = args[0][1], args[1][1]
            return I(z3.If(a >= b, a, b))
        # VecDeque<Job>: its length; jobs are opaque and conserved
        if re.search(r"VecDeque::<.*>::new$", f):
            return ("deque", z3.IntVal(0))
        if re.search(r"VecDeque::<.*>::len$", f):
            return I(st.heap[deref(args[0])][1])
        if re.search(r"VecDeque::<.*>::is_empty$", f):
            return B(st.heap[deref(args[0])][1] == 0)
        if re.search(r"VecDeque::<.*>::clear$", f):
            c = deref(args[0])
            st.discarded = st.discarded + st.heap[c][1]
            st.heap[c] = ("deque", z3.IntVal(0))
            return UNIT
        if re.search(r"VecDeque::<.*>::split_off$", f):
            c = deref(args[0])
            ln = st.heap[c][1]
            at = args[1][1]
            bad = at > ln
            if self.feasible(st, bad):
                s2 = st.clone()
                s2.pc.append(bad)
                # library panic `at > len` (unwinds; the guard is released by the cleanup path)
                self.extra.append(Outcome("panic", s2, msg="VecDeque::split_off: at > len"))
            if not self.feasible(st, z3.Not(bad)):
                return "diverge"
            st.pc.append(z3.Not(bad))
            st.heap[c] = ("deque", at)
            return ("deque", ln - at)
        # Vec<VecDeque<Job>>: bounded stack of lengths
        if re.search(r"Vec::<.*VecDeque<.*>>::new$", f):
            return ("vec", z3.IntVal(0), tuple(z3.IntVal(0) for _ in range(self.cap)))
        if re.search(r"Vec::<.*VecDeque<.*>>::pop$", f):
            c = deref(args[0])
            _, n, slots = st.heap[c]
            top = slots[-1]
            for i in range(len(slots) - 2, -1, -1):
                top = z3.If(n == i + 1, slots[i], top)
            some = n > 0
            st.heap[c] = ("vec", z3.If(some, n - 1, n), slots)
            return ("opt", some, st.alloc(("deque", top)))
        if re.search(r"Vec::<.*VecDeque<.*>>::push$", f):
            c = deref(args[0])
            _, n, slots = st.heap[c]
            d = args[1]
            full = n >= len(slots)
            if self.feasible(st, full):
                s2 = st.clone()
                s2.pc.append(full)
                self.extra.append(Outcome("bound", s2, msg="model capacity of job_batches exceeded"))
            if not self.feasible(st, z3.Not(full)):
                return "diverge"
            st.pc.append(z3.Not(full))
            st.heap[c] = ("vec", n + 1, tuple(z3.If(n == i, d[1], s) for i, s in enumerate(slots)))
            return UNIT
        if re.search(r"Vec::<.*VecDeque<.*>>::clear$", f):
            c = deref(args[0])
            _, n, slots = st.heap[c]
            tot = z3.IntVal(0)
            for i, s in enumerate(slots):
                tot = tot + z3.If(n > i, s, 0)
            st.discarded = st.discarded + tot
            st.heap[c] = ("vec", z3.IntVal(0), slots)
            return UNIT
        if re.search(r"Vec::<.*VecDeque<.*>>::is_empty$", f):
            return B(st.heap[deref(args[0])][1] == 0)
        if re.search(r"Vec::<.*VecDeque<.*>>::len$", f):
            return I(st.heap[deref(args[0])][1])
        # Range<usize>
        if re.search(r"Range<usize> as IntoIterator>::into_iter$", f):
            return args[0]
        if re.search(r"Range<usize> as Iterator>::next$", f):
            c = deref(args[0])
            v = st.heap[c]
            d = dict(v[1])
            start, end = st.heap[d[0]][1], st.heap[d[1]][1]
            has = start < end
            st.heap[d[0]] = I(z3.If(has, start + 1, start))
            return ("opt", has, st.alloc(I(start)))
        # time
        if f.endswith("SystemTime::now"):
            return I(self.clock(st))
        if re.search(r"<SystemTime as PartialOrd>::lt$", f):
            a = st.heap[deref(args[0])][1]
            b = st.heap[deref(args[1])][1]
            return B(a < b)
        NS = 1000000000
        if f.endswith("Duration::from_secs"):
            return ("dur", args[0][1] * NS) if args[0][0] == "int" else ("opaque", "duration")
        if f.endswith("Duration::from_millis"):
            return ("dur", args[0][1] * 1000000)
        if f.endswith("Duration::as_secs"):
            return I(st.heap[deref(args[0])][1] / NS)
        if f.endswith("Duration::as_millis"):
            return I(st.heap[deref(args[0])][1] / 1000000)
        if f.endswith("Duration::is_zero"):
            return B(st.heap[deref(args[0])][1] == 0)
        if re.fullmatch(r"<Duration as Ord>::min|std::cmp::min::<Duration>|core::cmp::Ord::min", f) and args[0][0] == "dur":
            a, b = args[0][1], args[1][1]
            return ("dur", z3.If(a <= b, a, b))
        if re.fullmatch(r"<Duration as Ord>::max|std::cmp::max::<Duration>", f) and args[0][0] == "dur":
            a, b = args[0][1], args[1][1]
            return ("dur", z3.If(a >= b, a, b))
        mm = re.fullmatch(r"<Duration as PartialOrd>::(lt|le|gt|ge)|<Duration as PartialEq>::(eq|ne)", f)
        if mm:
            a, b = st.heap[deref(args[0])][1], st.heap[deref(args[1])][1]
            op = mm.group(1) or mm.group(2)
            return B({"lt": a < b, "le": a <= b, "gt": a > b, "ge": a >= b, "eq": a == b, "ne": a != b}[op])
        if f.endswith("SystemTime::duration_since"):
            a = args[0][1] if args[0][0] == "int" else st.heap[deref(args[0])][1]
            b = args[1][1] if args[1][0] == "int" else st.heap[deref(args[1])][1]
            return ("res", a >= b, st.alloc(("dur", a - b)), st.alloc(("opaque", "SystemTimeError")))
        if re.search(r"Result::<Duration, .*>::unwrap_or_default$", f):
            r = args[0]
            return ("dur", z3.If(r[1], st.heap[r[2]][1], 0))
        if re.search(r"Result::<Duration, .*>::unwrap_or$", f):
            r = args[0]
            return ("dur", z3.If(r[1], st.heap[r[2]][1], args[1][1]))
        mm = re.search(r"<SystemTime as PartialOrd>::(le|gt|ge)$", f)
        if mm:
            a = st.heap[deref(args[0])][1]
            b = st.heap[deref(args[1])][1]
            return B({"le": a <= b, "gt": a > b, "ge": a >= b}[mm.group(1)])
        if re.search(r"<SystemTime as Add<Duration>>::add$|SystemTime::checked_add$", f):
            raise Unsupported("SystemTime addition in the timeout thread")
        # construction (only needed to read the initial market out of `new`)
        if re.search(r"Arc::<.*>::new$", f):
            return ("arc", st.alloc(args[0]))
        if re.search(r"<Arc<.*> as Clone>::clone$", f) or re.search(r"Arc::<.*>::clone$", f):
            return st.heap[deref(args[0])]
        if re.search(r"Mutex::<.*>::new$", f):
            return ("mutex", st.alloc(args[0]))
        if f.endswith("Condvar::new"):
            return ("condvar",)
        if re.search(r"<JobBroker<.*> as Clone>::clone$", f):
            return st.heap[deref(args[0])]
        raise Unsupported(f"no model for callee `{f}` (in {body.name}: {t.text[:120]})")

    cap = 4
    extra = []

    def clock(self, st):
        return self.fresh_int("now")
