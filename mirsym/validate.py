"""Translator validation (Serval's lesson): the MIR-derived segment summaries are compared with the
REAL JobBroker (real parking_lot, pristine sources) on a grid of concrete single-step cases:
every thread count 1..3, open/closed, open_count 0..T, three batch stacks, every broker operation
with several local-queue sizes.  Any difference is a translator bug -> the run is inconclusive."""
import os
import re
import subprocess
import z3

from jobmarket import Market, CAP

TEST = r'''
#[cfg(test)]
mod verif_translator_validation {
    use super::*;
    fn mk(t: usize, open: bool, oc: usize, batches: &[usize]) -> JobBroker<usize> {
        let b: JobBroker<usize> = JobBroker::new(t, None);
        {
            let mut m = b.market.lock();
            m.open = open;
            m.open_count = oc;
            for &k in batches { m.job_batches.push((0..k).collect()); }
        }
        b
    }
    fn show(b: &JobBroker<usize>) -> String {
        let m = b.market.lock();
        format!("{} {} {} {}", m.open as u8, m.open_count, m.job_batches.len(), m.job_batches.iter().map(|d| d.len().to_string()).collect::<Vec<_>>().join(","))
    }
    #[test]
    fn verif_dump_cases() {
        let stacks: [&[usize]; 4] = [&[], &[2], &[1, 3], &[2, 1, 4]];
        for t in 1..=3usize {
            for &open in &[true, false] {
                for oc in 0..=t {
                    for st in stacks.iter() {
                        let pre = format!("{} {} {} {}", t, open as u8, oc, st.iter().map(|k| k.to_string()).collect::<Vec<_>>().join(","));
                        // pop, on its own thread: a pop that does not return within 200 ms is reported
                        // as BLOCKS (the thread is left parked) - the real blocking condition is observed,
                        // not assumed, so a changed condition cannot hang the validation
                        {
                            let b = mk(t, open, oc, st);
                            let keep = b.clone();
                            let (tx, rx) = std::sync::mpsc::channel();
                            std::thread::spawn(move || {
                                let mut b = b;
                                let r = b.pop();
                                let _ = tx.send(r.len());
                                std::mem::forget(b);
                            });
                            match rx.recv_timeout(std::time::Duration::from_millis(200)) {
                                Ok(n) => println!("CASE {} | pop - -> {} | {} -", pre, show(&keep), n),
                                Err(_) => println!("CASE {} | pop - -> BLOCKS", pre),
                            }
                            std::mem::forget(keep);
                        }
                        for &k in &[0usize, 1, 3] {
                            let mut b = mk(t, open, oc, st);
                            b.push((0..k).collect());
                            println!("CASE {} | push {} -> {} | - -", pre, k, show(&b));
                            std::mem::forget(b);
                        }
                        for &k in &[0usize, 1, 2, 3, 5] {
                            let mut b = mk(t, open, oc, st);
                            let mut local: VecDeque<usize> = (0..k).collect();
                            b.split_and_push(&mut local);
                            println!("CASE {} | split {} -> {} | - {}", pre, k, show(&b), local.len());
                            std::mem::forget(b);
                        }
                        {
                            let b = mk(t, open, oc, st);
                            let keep = b.clone();
                            drop(b);
                            println!("CASE {} | drop - -> {} | - -", pre, show(&keep));
                            println!("CASE {} | closed - -> {} | {} -", pre, show(&keep), keep.is_closed() as u8);
                            std::mem::forget(keep);
                        }
                    }
                }
            }
        }
    }
}
'''


def run_native(sr_pristine, target_dir):
    p = os.path.join(sr_pristine, "src", "job_market.rs")
    orig = open(p).read()
    try:
        open(p, "w").write(orig + TEST)
        env = dict(os.environ)
        env["CARGO_NET_OFFLINE"] = "true"
        env["CARGO_TARGET_DIR"] = target_dir
        r = subprocess.run(["cargo", "test", "--lib", "--offline", "verif_dump_cases", "--", "--nocapture", "--test-threads", "1"], cwd=sr_pristine, env=env,
                           stdout=subprocess.PIPE, stderr=subprocess.STDOUT, text=True, timeout=900)
        if "test result: ok. 1 passed" not in r.stdout:
            return None, r.stdout[-2000:]
        return [l for l in r.stdout.splitlines() if l.startswith("CASE ")], ""
    finally:
        open(p, "w").write(orig)


def validate(bm, cases):
    g = Market.fresh("#v")
    L = z3.Int("L#v")
    sums = {
        "pop": bm.summarize("pop", g),
        "push": bm.summarize("push", g, local_len=L),
        "split": bm.summarize("split_and_push", g, local_len=L),
        "drop": bm.summarize("drop", g),
        "closed": bm.summarize("is_closed", g),
    }
    mismatches, checked = [], 0
    skipped_bound = [0]

    def ev(e, sub):
        v = z3.simplify(z3.substitute(e, *sub)) if isinstance(e, z3.ExprRef) else e
        if z3.is_int_value(v):
            return v.as_long()
        if z3.is_true(v):
            return 1
        if z3.is_false(v):
            return 0
        return None

    for line in cases:
        m = re.match(r"CASE (\d+) (\d) (\d+) (\S*) \| (\w+) (\S+) -> (.*)$", line)
        if not m:
            mismatches.append("unparsable: " + line)
            continue
        t, op_, oc, st, op, arg, rest = int(m.group(1)), int(m.group(2)), int(m.group(3)), m.group(4), m.group(5), m.group(6), m.group(7)
        slots = [int(x) for x in st.split(",")] if st else []
        n = len(slots)
        if op == "closed":
            # evaluated on the post-drop state printed in the same line
            pm = re.match(r"(\d) (\d+) (\d+) (\S*) \| (\S+) (\S+)$", rest)
            op_, oc, n = int(pm.group(1)), int(pm.group(2)), int(pm.group(3))
            slots = [int(x) for x in pm.group(4).split(",")] if pm.group(4) else []
        sub = [(g.open, z3.BoolVal(bool(op_))), (g.tc, z3.IntVal(t)), (g.oc, z3.IntVal(oc)), (g.n, z3.IntVal(n))]
        for i in range(CAP):
            sub.append((g.slots[i], z3.IntVal(slots[i] if i < len(slots) else 0)))
        if arg != "-":
            sub.append((L, z3.IntVal(int(arg))))
        live = [s for s in sums[op] if ev(s.guard, sub) == 1]
        checked += 1
        if len(live) != 1:
            mismatches.append(f"{line}: {len(live)} summaries enabled")
            continue
        s = live[0]
        if rest == "BLOCKS":
            if s.kind != "wait":
                mismatches.append(f"{line}: model says {s.kind}")
            continue
        if s.kind == "bound":
            skipped_bound[0] += 1  # the real market would hold more batches than the model's capacity
            continue
        if s.kind not in ("return",):
            mismatches.append(f"{line}: model ends in {s.kind}")
            continue
        pm = re.match(r"(\d) (\d+) (\d+) (\S*) \| (\S+) (\S+)$", rest)
        want = (int(pm.group(1)), int(pm.group(2)), int(pm.group(3)))
        wslots = [int(x) for x in pm.group(4).split(",")] if pm.group(4) else []
        got = (ev(s.post.open, sub), ev(s.post.oc, sub), ev(s.post.n, sub))
        gslots = [ev(s.post.slots[i], sub) for i in range(want[2])] if want[2] <= CAP else None
        if got != want or gslots != wslots:
            mismatches.append(f"{line}: model post {got} {gslots}")
            continue
        if pm.group(5) != "-" and ev(s.ret_len, sub) != int(pm.group(5)):
            mismatches.append(f"{line}: model return {ev(s.ret_len, sub)}")
        if pm.group(6) != "-" and ev(s.local_post, sub) != int(pm.group(6)):
            mismatches.append(f"{line}: model local queue {ev(s.local_post, sub)}")
    return checked - skipped_bound[0], mismatches
