"""Worker closures of the parallel checkers (bfs.rs / dfs.rs `spawn::{closure}` that calls
`JobBroker::pop`), executed symbolically from their MIR, one loop iteration at a time.

The closure owns its `JobBroker` clone and its local queue `pending`; every use of either is a
syntactically visible argument.  Calls are modelled as follows:

* `JobBroker::pop`            -> returns a queue of arbitrary length r >= 0          (event pop)
* `JobBroker::split_and_push` -> local queue shrinks to an arbitrary length <= before (event split_and_push)
* `JobBroker::is_closed`      -> arbitrary bool                                      (event is_closed)
* `Self::check_block(.., &mut pending, ..)` -> local queue gets an arbitrary length   (event block)
* `HasDiscoveries::matches`   -> arbitrary bool (finish condition)                   (event finish)
* `Atomic<usize>::load`       -> arbitrary value (state count)                       (event load)
* any other callee that is handed neither the broker nor a queue: arbitrary result of the
  destination's type (it cannot reach the broker or the queue: both are owned by the closure)
* a callee that IS handed the broker or a queue and is not listed above -> Unsupported (exit 2)

The obligations are decided by z3 over the path conditions (queue lengths, thread count, block
outcomes, finish verdicts, counters are solver variables).
"""
import re
import z3

from mir import parse_body, split_functions, Unsupported, _matching
from symex import Executor, State, Outcome, I, B, UNIT, SOLVER_STATS
import time

OBSERVING = ("pop", "split_and_push", "is_closed")  # (for reporting only)


def find_worker_closures(mir_text):
    """{checker name: mir text} of the spawn closures that call JobBroker::pop."""
    res = {}
    for f in split_functions(mir_text):
        hdr = f.split("\n", 1)[0]
        m = re.match(r"^fn (?:checker::)?(\w+)::<impl at src/checker/(\w+)\.rs[^>]*>::spawn::\{closure#\d+\}(?:::\{closure#\d+\})*\(", hdr)
        if not m:
            continue
        if re.search(r"= JobBroker::<.*>::pop\(", f):
            res[m.group(2)] = f
    return res


def _succ(term, with_unwind=False):
    k = term.kind
    out = []
    if k == "goto":
        out = [term.args["target"]]
    elif k == "switch":
        out = [t for _, t in term.args["arms"]] + ([term.args["otherwise"]] if term.args["otherwise"] is not None else [])
    elif k in ("call", "drop"):
        r = term.args["targets"].get("return")
        out = [r] if r is not None else []
    elif k == "assert":
        out = [term.args["targets"]["success"]]
    if with_unwind and k in ("call", "drop", "assert"):
        uw = term.args["targets"].get("unwind")
        m = re.match(r"bb(\d+)", uw) if isinstance(uw, str) else None
        if m:
            out = out + [int(m.group(1))]
    return out


def loop_heads(body):
    heads, color = set(), {}
    stack = [(0, iter(_succ(body.blocks[0].term)))]
    color[0] = 1
    while stack:
        n, it = stack[-1]
        adv = False
        for s in it:
            if color.get(s, 0) == 0:
                color[s] = 1
                stack.append((s, iter(_succ(body.blocks[s].term))))
                adv = True
                break
            if color.get(s) == 1:
                heads.add(s)
        if not adv:
            color[n] = 2
            stack.pop()
    return heads


class WorkerExecutor(Executor):
    def __init__(self, bodies):
        super().__init__(bodies)
        self.opaque_calls = set()
        self.pending_local = None
        # the market is closed during this round (never re-opens: static obligation of the broker);
        # what a closed market does to pop / split_and_push is taken from the broker's own
        # obligations (pop hands out nothing, split_and_push clears the local queue)
        self.closed = z3.Bool("market_closed")

    # -- helpers
    def _target(self, st, v, depth=0):
        """Follows references; returns the value a reference chain ends in."""
        while v[0] in ("ref", "arc", "box") and depth < 6:
            v = st.heap[v[1]]
            depth += 1
        return v

    def _target_cell(self, st, v):
        c = None
        d = 0
        while v[0] in ("ref", "arc", "box") and d < 6:
            c = v[1]
            v = st.heap[c]
            d += 1
        return c, v

    def _pending_len(self, st):
        c = st.locals.get(self.pending_local)
        v = st.heap.get(c, ("uninit",)) if c is not None else ("uninit",)
        return v[1] if v[0] == "deque" else None

    def _fresh_by_type(self, st, ty, name):
        ty = (ty or "").strip()
        if ty == "bool":
            return B(self.fresh_bool(name))
        if ty in ("usize", "u64", "u32"):
            v = self.fresh_int(name)
            st.pc.append(v >= 0)
            return I(v)
        if ty == "()":
            return UNIT
        return ("opaque", f"{ty[:50]}#{next(self.fresh)}")  # every arbitrary result is its own object

    def drop_value(self, st, v, body, t):
        if v[0] in ("arc", "broker", "opt", "opaque", "uninit"):
            if v[0] == "broker":
                st.events.append(("drop_broker",))
            if v[0] == "opt" and st.heap.get(v[2], ("uninit",)) == ("opaque", "job"):
                st.discarded = st.discarded + z3.If(v[1], 1, 0)
            return None
        return super().drop_value(st, v, body, t)

    def call(self, st, body, t):
        f = t.args["func"]
        args = [self.read(st, a) for a in t.args["args"]]
        dst = t.args["dst"]
        dst_ty = body.locals_ty.get(dst.local) if dst is not None and not dst.proj else None
        tcs = [self._target_cell(st, a) for a in args]
        kinds = [v[0] for _, v in tcs]

        m = re.search(r"JobBroker::<.*>::(\w+)$", f)
        if m:
            meth = m.group(1)
            if kinds[:1] != ["broker"]:
                raise Unsupported(f"JobBroker::{meth} on something that is not the closure's broker")
            if meth == "pop":
                r = self.fresh_int("popped")
                st.pc += [r >= 0, z3.Implies(self.closed, r == 0)]
                st.events.append(("pop", r, self._pending_len(st)))
                return ("deque", r)
            if meth == "split_and_push":
                c, v = tcs[1]
                if v[0] != "deque":
                    raise Unsupported("split_and_push: second argument is not a queue")
                after = self.fresh_int("after_split")
                st.pc += [after >= 0, after <= v[1], z3.Implies(self.closed, after == 0)]
                st.events.append(("split_and_push", v[1], after, c == st.locals.get(self.pending_local)))
                st.heap[c] = ("deque", after)
                return UNIT
            if meth == "is_closed":
                b = self.fresh_bool("closed")
                st.events.append(("is_closed", b))
                return B(b)
            raise Unsupported(f"worker closure calls JobBroker::{meth}, which the worker model does not know")
        if re.search(r"VecDeque::<.*>::new$", f):
            return ("deque", z3.IntVal(0))
        if re.search(r"VecDeque::<.*>::(is_empty|len)$", f):
            v = tcs[0][1]
            if v[0] != "deque":
                raise Unsupported(f"{f} on {v[0]}")
            return B(v[1] == 0) if f.endswith("is_empty") else I(v[1])
        mq = re.search(r"VecDeque::<.*>::(pop_back|pop_front|push_back|push_front|clear|append)$", f)
        if mq:
            c, v = tcs[0]
            if v[0] != "deque":
                raise Unsupported(f"{f} on {v[0]}")
            op = mq.group(1)
            if op in ("pop_back", "pop_front"):
                st.heap[c] = ("deque", z3.If(v[1] > 0, v[1] - 1, 0))
                return ("opt", v[1] > 0, st.alloc(("opaque", "job")))
            if op in ("push_back", "push_front"):
                st.heap[c] = ("deque", v[1] + 1)
                return UNIT
            if op == "clear":
                st.discarded = st.discarded + v[1]
                st.heap[c] = ("deque", z3.IntVal(0))
                return UNIT
            if op == "append":
                c2, v2 = tcs[1]
                if v2[0] != "deque":
                    raise Unsupported("append: second argument is not a queue")
                st.heap[c] = ("deque", v[1] + v2[1])
                st.heap[c2] = ("deque", z3.IntVal(0))
                return UNIT
        if re.search(r"VecDeque<.*> as Extend<.*>>::extend::<", f):
            c, v = tcs[0]
            x = args[1]
            if v[0] != "deque":
                raise Unsupported(f"{f} on {v[0]}")
            if x[0] == "opt":
                st.heap[c] = ("deque", v[1] + z3.If(x[1], 1, 0))
                return UNIT
            if x[0] == "deque":
                st.heap[c] = ("deque", v[1] + x[1])
                return UNIT
            raise Unsupported(f"extend of a queue with {x[0]}")
        if re.search(r"::check_block$", f):
            qs = [(c, v) for c, v in tcs if v[0] == "deque"]
            if len(qs) != 1 or "broker" in kinds:
                raise Unsupported("check_block is expected to take exactly one queue and not the broker")
            c, v = qs[0]
            n = self.fresh_int("after_block")
            st.pc.append(n >= 0)
            st.events.append(("block", v[1], n, c == st.locals.get(self.pending_local)))
            st.heap[c] = ("deque", n)
            return UNIT
        if "broker" in kinds or "deque" in kinds:
            raise Unsupported(f"callee `{f}` is handed the broker or a job queue and has no model")
        if re.search(r"HasDiscoveries::matches::<", f):
            b = self.fresh_bool("finish")
            st.events.append(("finish", b))
            return B(b)
        if re.search(r"NonZero::<usize>::get$", f):
            v = args[0]
            if v[0] == "int":
                return v
            raise Unsupported(f"NonZero::get on {v[0]}")
        if re.search(r"Atomic::<usize>::load$|AtomicUsize::load$", f):
            v = self.fresh_int("loaded")
            st.pc.append(v >= 0)
            st.events.append(("load", v))
            return I(v)
        if re.search(r"as Deref>::deref$", f):
            c, v = tcs[0]
            if args[0][0] == "ref":
                inner = st.heap[args[0][1]]
                if inner[0] == "arc":
                    return ("ref", inner[1])
            return ("ref", st.alloc(("opaque", "deref")))
        # anything else cannot reach the broker or the queue
        self.opaque_calls.add(re.sub(r"<.*", "", f)[:80] if f.startswith("<") is False else f[:80])
        return self._fresh_by_type(st, dst_ty, "ret")


def _env_fields(text):
    """[(index, type)] of the closure environment's fields as they appear in places `(_1.N: T)`."""
    out = {}
    for m in re.finditer(r"\(_1\.(\d+): ", text):
        i = m.start()
        j = _matching(text, i)
        ty = text[m.end():j]
        out[int(m.group(1))] = ty
    return out


def _debug_names(text):
    env, loc = {}, {}
    for m in re.finditer(r"debug (\w+) => \(_1\.(\d+): ", text):
        env[m.group(1)] = int(m.group(2))
    for m in re.finditer(r"debug (\w+) => _(\d+);", text):
        loc.setdefault(m.group(1), int(m.group(2)))
    return env, loc


class WorkerModel:
    def __init__(self, name, text):
        self.name = name
        self.text = text
        self.body = parse_body(text)
        self.ex = WorkerExecutor({Executor.short(self.body): self.body})
        self.ex.stop_blocks = set()
        self.env_names, self.loc_names = _debug_names(text)
        if "pending" not in self.loc_names:
            raise Unsupported(f"{name} worker: no local named `pending`")
        self.ex.pending_local = self.loc_names["pending"]
        heads = {h for h in loop_heads(self.body) if not self.body.blocks[h].cleanup}
        if len(heads) != 1:
            raise Unsupported(f"{name} worker: expected exactly one loop head, found {sorted(heads)}")
        self.head = next(iter(heads))
        self.T = z3.Int(f"thread_count_{name}")
        self.tgt_some = z3.Bool(f"has_target_state_count_{name}")
        self.tgt = z3.Int(f"target_state_count_{name}")
        self.base = [self.T >= 1, self.tgt >= 1]

    def _env(self, st):
        cells = []
        fields = _env_fields(self.text)
        if not fields:
            raise Unsupported("closure environment fields not found")
        names = {v: k for k, v in self.env_names.items()}
        for i in range(max(fields) + 1):
            ty = fields.get(i, "?")
            nm = names.get(i, f"f{i}")
            if "JobBroker<" in ty:
                v = ("broker",)
            elif nm == "thread_count":
                v = I(self.T)
            elif nm == "target_state_count":
                v = ("opt", self.tgt_some, st.alloc(I(self.tgt)))
            elif ty == "usize":
                x = z3.Int(f"env_{nm}_{self.name}")
                self.base.append(x >= 0)
                v = I(x)
            elif ty == "bool":
                v = B(z3.Bool(f"env_{nm}_{self.name}"))
            elif ty.startswith("std::option::Option<std::num::NonZero<usize>>"):
                x = z3.Int(f"env_{nm}_{self.name}")
                self.base.append(x >= 1)
                v = ("opt", z3.Bool(f"env_has_{nm}_{self.name}"), st.alloc(I(x)))
            elif ty.startswith("std::sync::Arc<"):
                v = ("arc", st.alloc(("opaque", ty[:40])))
            else:
                v = ("opaque", ty[:40])
            cells.append((i, st.alloc(v)))
        return ("struct", tuple(cells), "{closure@worker}", tuple(names.get(i, f"f{i}") for i in range(max(fields) + 1)))

    def paths(self):
        """(prologue outcomes, iteration outcomes).  An iteration starts at the loop head with a
        local queue of arbitrary length L and ends back at the head or when the closure is left."""
        ex = self.ex
        st = State()
        st.locals[1] = st.alloc(self._env(st))
        ex.base_constraints = list(self.base)
        ex.stop_blocks = {self.head}
        pro = ex.run(self.body, st, 0)
        if len(pro) != 1 or pro[0].kind != "reach":
            raise Unsupported(f"{self.name} worker: prologue does not reach the loop head on a single path ({[o.kind for o in pro]})")
        p0 = pro[0].st
        plen = ex._pending_len(p0)
        if plen is None:
            raise Unsupported("`pending` is not a queue at the loop head")
        self.prologue_len = plen
        st1 = p0.clone()
        self.L = z3.Int(f"L_{self.name}")
        st1.heap[st1.locals[ex.pending_local]] = ("deque", self.L)
        st1.pc, st1.events, st1.discarded, st1.steps = [], [], z3.IntVal(0), 0
        ex.base_constraints = list(self.base) + [self.L >= 0]
        outs = ex.run(self.body, st1, self.head)
        return pro, outs

    def unwind_reaches_env_drop(self):
        """Structural: from every unwind edge of a non-cleanup block, the cleanup chain drops the
        closure environment (and with it the broker, whose Drop closes the market) before `resume`."""
        bad = []
        for b in self.body.blocks.values():
            if b.cleanup or b.term.kind not in ("call", "drop", "assert"):
                continue
            uw = b.term.args["targets"].get("unwind")
            m = re.match(r"bb(\d+)", uw) if isinstance(uw, str) else None
            if not m:
                if b.term.kind == "drop" and re.search(r"drop\(_1\)", b.term.text):
                    continue
                if isinstance(uw, str) and uw.strip() in ("continue",) and b.term.kind == "call":
                    bad.append(b.name)
                continue
            n, seen, ok = int(m.group(1)), set(), False
            while n not in seen:
                seen.add(n)
                t = self.body.blocks[n].term
                if t.kind == "drop" and re.search(r"drop\(_1\)", t.text):
                    ok = True
                    break
                s = _succ(t)
                if len(s) != 1:
                    break
                n = s[0]
            if not ok:
                bad.append(b.name)
        return bad


def _check(base, *f, timeout_ms=60000):
    s = z3.Solver()
    s.set("timeout", timeout_ms)
    s.add(*base)
    s.add(*f)
    _t = time.time()
    r = s.check()
    SOLVER_STATS["time"] += time.time() - _t
    SOLVER_STATS["queries"] += 1
    return r, (s.model() if r == z3.sat else None)


def _small_witness(base, f, vars_, bound=8):
    r, m = _check(base, f, *[v <= bound for v in vars_])
    if r == z3.sat:
        return m
    r, m = _check(base, f)
    return m


def obligations(name, text):
    """Returns (list of obligation dicts, info)."""
    wm = WorkerModel(name, text)
    pro, outs = wm.paths()
    base = wm.base + [wm.L >= 0]
    res = []

    def add(ob, r, **kw):
        res.append({"obligation": f"{name} worker: {ob}", "result": "unsat" if r == z3.unsat else ("sat" if r == z3.sat else str(r)), **kw})

    r, _ = _check(wm.base, wm.prologue_len != 0)
    add("the local queue is empty when the loop is entered", r)
    n_iter = n_exit = 0
    for i, o in enumerate(outs):
        st = o.st
        g = z3.And(*st.pc) if st.pc else z3.BoolVal(True)
        ev = st.events
        pops = [e for e in ev if e[0] == "pop"]
        blocks = [e for e in ev if e[0] == "block"]
        splits = [e for e in ev if e[0] == "split_and_push"]
        observed = [e for e in ev if e[0] in OBSERVING]
        tagp = f"path {i} [" + ",".join(e[0] for e in ev) + "]"
        if o.kind == "reach":
            n_iter += 1
            # W1: once the market is closed (timeout, another worker stopped or panicked) a busy
            # worker's round must end with an empty queue - then the next round starts with pop,
            # which hands out nothing on a closed market, and the worker leaves.  A round that ends
            # with jobs in the queue although the market is closed can repeat for ever.
            w1 = f"{tagp}: on a closed market the round of a busy worker ends with an empty queue (the next round pops an empty batch and leaves)"
            post = wm.ex._pending_len(st)
            if post is None:
                raise Unsupported("`pending` is not a queue at the end of a round")
            r, _ = _check(base, g, wm.ex.closed, post > 0)
            if r == z3.unsat:
                add(w1, r)
            else:
                ints = [wm.T, wm.L] + [e[2] for e in blocks]
                m = _small_witness(base, z3.And(g, wm.ex.closed, post > 0), ints) if r == z3.sat else None
                wit = None
                if m is not None:
                    wit = {"checker": name, "threads": m.eval(wm.T, model_completion=True).as_long(), "queue_before": m.eval(wm.L, model_completion=True).as_long(),
                           "queue_after_block": [m.eval(e[2], model_completion=True).as_long() for e in blocks], "queue_at_end_of_round": m.eval(post, model_completion=True).as_long(),
                           "broker_calls_in_round": [e[0] for e in observed]}
                add(w1, z3.sat if m is not None else z3.unknown, witness=wit)
            # W3: nothing is destroyed while the worker keeps going; a popped batch becomes the queue
            r, _ = _check(base, g, st.discarded != 0)
            add(f"{tagp}: no job is dropped while the worker keeps working", r)
            r, _ = _check(base, g, z3.BoolVal(len(blocks) != 1))
            add(f"{tagp}: exactly one block of work per round", r)
            if blocks:
                r, _ = _check(base, g, blocks[0][1] == 0)
                add(f"{tagp}: the block runs on a non-empty queue", r)
                r, _ = _check(base, g, z3.BoolVal(not blocks[0][3]))
                add(f"{tagp}: the block works on the worker's own queue", r)
            if pops and blocks:
                r, _ = _check(base, g, blocks[0][1] != pops[0][1])
                add(f"{tagp}: the popped batch is the queue the block works on", r)
        elif o.kind == "return_drop_broker":
            n_exit += 1
            reasons = [p[1] == 0 for p in pops] + [e[1] for e in ev if e[0] == "finish"] + [z3.And(wm.tgt_some, wm.tgt <= e[1]) for e in ev if e[0] == "load"]
            r, m = _check(base, g, z3.Not(z3.Or(*reasons)) if reasons else z3.BoolVal(True))
            add(f"{tagp}: the worker leaves only after an empty batch, a met finish condition or the target state count", r, **({"witness": str(m)} if m is not None else {}))
        elif o.kind == "panic":
            continue
        else:
            raise Unsupported(f"{name} worker: unexpected end of a round: {o.kind}")
        # W2: pop only on an empty queue (no job overwritten)
        for p in pops:
            if p[2] is None:
                raise Unsupported("pop while `pending` is not a queue")
            r, _ = _check(base, g, p[2] != 0)
            add(f"{tagp}: pop is called only with an empty local queue", r)
        for sp in splits:
            r, _ = _check(base, g, z3.BoolVal(not sp[3]))
            add(f"{tagp}: split_and_push is handed the worker's own queue", r)
    if n_iter == 0 or n_exit == 0:
        raise Unsupported(f"{name} worker: no continuing or no leaving path found (shape)")
    bad = wm.unwind_reaches_env_drop()
    res.append({"obligation": f"{name} worker: every unwind edge (panic in model code) reaches the drop of the closure's broker (structural CFG check)", "result": "unsat" if not bad else "sat", **({"witness": f"blocks {bad}"} if bad else {})})
    info = {"function": wm.body.name, "blocks": len(wm.body.blocks), "loop_head": f"bb{wm.head}", "round_paths": len(outs),
            "opaque_callees": sorted(wm.ex.opaque_calls), "z3_feasibility_queries": wm.ex.queries}
    return res, info


def share_form(name, text):
    """How the worker decides to share work after a block, as the BMC's client automaton needs it:
    'guarded' = split_and_push exactly when the local queue holds > 1 jobs and thread_count > 1,
    'always'  = split_and_push in every round that goes on.  Decided by z3 on the round paths."""
    wm = WorkerModel(name, text)
    _, outs = wm.paths()
    base = wm.base + [wm.L >= 0]
    cont = [o for o in outs if o.kind == "reach" and any(e[0] == "block" for e in o.st.events)]
    if not cont:
        raise Unsupported(f"{name} worker: no continuing round with a block")

    def valid(form):
        for o in cont:
            g = z3.And(*o.st.pc) if o.st.pc else z3.BoolVal(True)
            n = [e for e in o.st.events if e[0] == "block"][0][2]
            has = any(e[0] == "split_and_push" for e in o.st.events)
            f = form(n)
            r, _ = _check(base, g, z3.Not(f) if has else f)
            if r != z3.unsat:
                return False
        return True

    if valid(lambda n: z3.And(n > 1, wm.T > 1)):
        return "guarded"
    if valid(lambda n: z3.BoolVal(True)):
        return "always"
    raise Unsupported(f"{name} worker shares work under a condition the client automaton of the BMC does not know (neither `len > 1 && thread_count > 1` nor unconditional)")
