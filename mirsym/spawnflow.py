"""How `spawn()` of bfs.rs / dfs.rs wires the builder's options into the workers, from its MIR.

`spawn(options: CheckerBuilder<M>)` is executed with every callee arbitrary and its loops havocked
(blockloop.BlockExecutor); the fields of `options` are distinct opaque values.  At every
`Builder::spawn::<{worker closure}>` call the closure environment must carry, unchanged,
`options.target_max_depth` and `options.target_state_count` (field indices are read from the
declaration order of `struct CheckerBuilder` in src/checker.rs), and `JobBroker::new` must be
given `options.thread_count`.  A value that went through any computation (e.g.
`options.target_max_depth.and_then(..)`) is a different value and is reported.
"""
import re
import z3

from mir import parse_body, split_functions, Unsupported
from symex import Executor, State
from blockloop import BlockExecutor, _natural_loop, _assigned
from workerloop import loop_heads, _check


def builder_fields(checker_rs):
    m = re.search(r"pub struct CheckerBuilder<[^>]*>\s*\{(.*?)\n\}", checker_rs, re.S)
    if not m:
        raise Unsupported("struct CheckerBuilder not found in src/checker.rs")
    names = []
    for line in m.group(1).splitlines():
        line = line.strip()
        mm = re.match(r"^(?:pub(?:\([a-z]+\))? )?(\w+)\s*:", line)
        if mm and not line.startswith(("//", "#")):
            names.append(mm.group(1))
    return names


class SpawnExecutor(BlockExecutor):
    def call(self, st, body, t):
        f = t.args["func"]
        if re.search(r"Builder::spawn::<\{closure@", f):
            args = [self.read(st, a) for a in t.args["args"]]
            st.events.append(("spawn_worker", args[-1], dict(st.heap)))
            return ("opaque", "joinhandle")
        if re.search(r"JobBroker::<.*>::new$", f):
            args = [self.read(st, a) for a in t.args["args"]]
            st.events.append(("broker_new", args[0]))
            return ("broker",)
        if re.search(r"JobBroker::<.*>::(push|clone)$|as Clone>::clone$", f):
            args = [self.read(st, a) for a in t.args["args"]]
            tgt = self._target(st, args[0])
            if f.endswith("::push"):
                st.events.append(("broker_push",))
            return ("broker",) if tgt[0] == "broker" else ("opaque", "clone")
        return super().call(st, body, t)


def obligations(name, mir_text, checker_rs):
    fields = builder_fields(checker_rs)
    need = {"target_max_depth", "target_state_count", "thread_count"}
    if not need <= set(fields):
        raise Unsupported(f"CheckerBuilder fields {sorted(need - set(fields))} not found")
    text = None
    for f in split_functions(mir_text):
        if re.match(rf"^fn (?:checker::)?{name}::<impl at src/checker/{name}\.rs[^>]*>::spawn\(", f.split("\n", 1)[0]):
            text = f
    if text is None:
        raise Unsupported(f"{name}: spawn() not found in the MIR")
    body = parse_body(text)
    ex = SpawnExecutor({Executor.short(body): body})
    ex.job_types, ex.depth_idx = [], None
    heads = sorted(h for h in loop_heads(body) if not body.blocks[h].cleanup)
    ex.loop_havoc = {h: _assigned(body, _natural_loop(body, h)) for h in heads}
    ex.stop_blocks = set()
    st = State()
    cells = []
    opt_fields = {}
    for i, fn in enumerate(fields):
        v = ("opaque", f"options.{fn}")
        cells.append((i, st.alloc(v)))
        opt_fields[fn] = v
    st.locals[body.params[0]] = st.alloc(("struct", tuple(cells)))
    outs = ex.run(body, st, 0)
    res = []
    n_spawn = 0

    def add(ob, ok, g, **kw):
        r = z3.unsat if ok else _check([], g)[0]
        res.append({"obligation": f"{name} spawn: {ob}", "result": "unsat" if r == z3.unsat else ("sat" if r == z3.sat else str(r)), **kw})

    for i, o in enumerate(outs):
        if o.kind == "panic":
            continue
        g = z3.And(*o.st.pc) if o.st.pc else z3.BoolVal(True)
        for e in o.st.events:
            if e[0] == "broker_new":
                add(f"path {i}: the job broker is created for options.thread_count workers", e[1] == opt_fields["thread_count"], g, **({} if e[1] == opt_fields["thread_count"] else {"witness": {"checker": name, "passed": str(e[1])[:80]}}))
            if e[0] == "spawn_worker":
                n_spawn += 1
                clo, heap = e[1], e[2]
                if clo[0] != "struct" or len(clo) < 4:
                    raise Unsupported("worker closure environment is not an aggregate with named captures")
                env = {nm: heap[c] for (idx, c), nm in zip(clo[1], clo[3])}
                for fn in ("target_max_depth", "target_state_count"):
                    if fn not in env:
                        continue  # not captured: nothing is handed over under that name
                    ok = env[fn] == opt_fields[fn]
                    add(f"path {i}: the worker is handed options.{fn} unchanged", ok, g, **({} if ok else {"witness": {"checker": name, "handed": str(env[fn])[:80]}}))
                if "target_max_depth" not in env:
                    add(f"path {i}: the worker is handed options.target_max_depth unchanged", False, g, witness={"checker": name, "handed": "nothing (not captured)"})
    for i, o in enumerate(outs):
        if o.kind == "panic":
            continue
        g = z3.And(*o.st.pc) if o.st.pc else z3.BoolVal(True)
        pushes = sum(1 for e in o.st.events if e[0] == "broker_push")
        spawned = any(e[0] == "spawn_worker" for e in o.st.events)
        # a path cut inside a loop that has already pushed once and pushes again, or a complete path
        # without exactly one push: the initial states do not reach the market as ONE batch
        if o.kind == "cut":
            add(f"path {i}: the initial states are pushed to the job market as one batch (no push inside a loop)", pushes <= 1, g)
        elif spawned or o.kind == "return":
            add(f"path {i}: the initial states are pushed to the job market as one batch (exactly one push)", pushes == 1, g)
    if n_spawn == 0:
        raise Unsupported(f"{name} spawn: no worker thread creation found on any path")
    info = {"function": body.name, "blocks": len(body.blocks), "loops_havocked": [f"bb{h}" for h in heads], "paths": len(outs), "builder_fields": fields}
    return res, info
