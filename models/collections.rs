//! Verification models of the `std::collections` types used by stateright.
//!
//! hashbrown and the B-tree are out of CBMC's reach (SIMD group scans, node navigation, bulk
//! building).  In the scratch copy analysed by Kani, selected source files import these models
//! instead of `std::collections`; the stateright code that USES the containers is the real code.
//!
//! Contract modelled (the documented contract of the std types, nothing more):
//! * `HashMap`/`HashSet`: finite map/set with unique keys by `Eq`; equality is order-insensitive;
//!   iteration order is unspecified - the model iterates in insertion order (after removals:
//!   remaining elements keep their relative order).  Code under test must not depend on it;
//!   harness oracles are order-insensitive where std is unordered.
//! * `BTreeMap`/`BTreeSet`: keys unique and iterated in ascending `Ord` order; `Eq`/`Ord`/`Hash`
//!   as in std (length prefix, then entries in order).
//! * `VecDeque`: sequence with O(1) ends; `Eq`/`Ord`/`Hash` as in std (length prefix, then the
//!   elements one by one).
//! The hasher/BuildHasher parameter is carried but never consulted.
#![allow(dead_code)]

use std::borrow::Borrow;
use std::cmp::Ordering;
use std::fmt::{self, Debug};
use std::hash::{Hash, Hasher};
use std::iter::FromIterator;
use std::marker::PhantomData;

// ------------------------------------------------------------------------------------------------
// VecDeque

#[derive(Clone)]
pub struct VecDeque<T> {
    v: Vec<T>,
}
impl<T> VecDeque<T> {
    pub fn new() -> Self {
        VecDeque { v: Vec::new() }
    }
    pub fn with_capacity(n: usize) -> Self {
        VecDeque { v: Vec::with_capacity(n) }
    }
    pub fn len(&self) -> usize {
        self.v.len()
    }
    pub fn is_empty(&self) -> bool {
        self.v.is_empty()
    }
    pub fn push_back(&mut self, t: T) {
        self.v.push(t)
    }
    pub fn push_front(&mut self, t: T) {
        self.v.insert(0, t)
    }
    pub fn pop_back(&mut self) -> Option<T> {
        self.v.pop()
    }
    pub fn pop_front(&mut self) -> Option<T> {
        if self.v.is_empty() {
            None
        } else {
            Some(self.v.remove(0))
        }
    }
    pub fn front(&self) -> Option<&T> {
        self.v.first()
    }
    pub fn back(&self) -> Option<&T> {
        self.v.last()
    }
    pub fn get(&self, i: usize) -> Option<&T> {
        self.v.get(i)
    }
    pub fn get_mut(&mut self, i: usize) -> Option<&mut T> {
        self.v.get_mut(i)
    }
    pub fn remove(&mut self, i: usize) -> Option<T> {
        if i < self.v.len() {
            Some(self.v.remove(i))
        } else {
            None
        }
    }
    pub fn clear(&mut self) {
        self.v.clear()
    }
    pub fn iter(&self) -> std::slice::Iter<'_, T> {
        self.v.iter()
    }
    pub fn iter_mut(&mut self) -> std::slice::IterMut<'_, T> {
        self.v.iter_mut()
    }
    pub fn split_off(&mut self, at: usize) -> Self {
        VecDeque { v: self.v.split_off(at) }
    }
    pub fn append(&mut self, other: &mut Self) {
        self.v.append(&mut other.v)
    }
    pub fn contains(&self, x: &T) -> bool
    where
        T: PartialEq,
    {
        self.v.contains(x)
    }
    pub fn drain<R: std::ops::RangeBounds<usize>>(&mut self, r: R) -> std::vec::Drain<'_, T> {
        self.v.drain(r)
    }
}
impl<T> Default for VecDeque<T> {
    fn default() -> Self {
        Self::new()
    }
}
impl<T: Debug> Debug for VecDeque<T> {
    fn fmt(&self, f: &mut fmt::Formatter<'_>) -> fmt::Result {
        f.debug_list().entries(self.v.iter()).finish()
    }
}
impl<T: PartialEq> PartialEq for VecDeque<T> {
    fn eq(&self, o: &Self) -> bool {
        self.v == o.v
    }
}
impl<T: Eq> Eq for VecDeque<T> {}
impl<T: PartialOrd> PartialOrd for VecDeque<T> {
    fn partial_cmp(&self, o: &Self) -> Option<Ordering> {
        self.v.partial_cmp(&o.v)
    }
}
impl<T: Ord> Ord for VecDeque<T> {
    fn cmp(&self, o: &Self) -> Ordering {
        self.v.cmp(&o.v)
    }
}
impl<T: Hash> Hash for VecDeque<T> {
    fn hash<H: Hasher>(&self, state: &mut H) {
        // as std: length prefix, then element by element
        state.write_usize(self.v.len());
        for e in &self.v {
            e.hash(state);
        }
    }
}
impl<T> std::ops::Index<usize> for VecDeque<T> {
    type Output = T;
    fn index(&self, i: usize) -> &T {
        &self.v[i]
    }
}
impl<T> std::ops::IndexMut<usize> for VecDeque<T> {
    fn index_mut(&mut self, i: usize) -> &mut T {
        &mut self.v[i]
    }
}
impl<T> FromIterator<T> for VecDeque<T> {
    fn from_iter<I: IntoIterator<Item = T>>(it: I) -> Self {
        VecDeque { v: it.into_iter().collect() }
    }
}
impl<T> Extend<T> for VecDeque<T> {
    fn extend<I: IntoIterator<Item = T>>(&mut self, it: I) {
        self.v.extend(it)
    }
}
impl<T> IntoIterator for VecDeque<T> {
    type Item = T;
    type IntoIter = std::vec::IntoIter<T>;
    fn into_iter(self) -> Self::IntoIter {
        self.v.into_iter()
    }
}
impl<'a, T> IntoIterator for &'a VecDeque<T> {
    type Item = &'a T;
    type IntoIter = std::slice::Iter<'a, T>;
    fn into_iter(self) -> Self::IntoIter {
        self.v.iter()
    }
}
impl<T> From<Vec<T>> for VecDeque<T> {
    fn from(v: Vec<T>) -> Self {
        VecDeque { v }
    }
}
impl<T, const N: usize> From<[T; N]> for VecDeque<T> {
    fn from(a: [T; N]) -> Self {
        VecDeque { v: Vec::from(a) }
    }
}
impl<T: serde::Serialize> serde::Serialize for VecDeque<T> {
    fn serialize<S: serde::Serializer>(&self, s: S) -> Result<S::Ok, S::Error> {
        s.collect_seq(self.v.iter())
    }
}

// ------------------------------------------------------------------------------------------------
// BTreeMap: sorted vector of pairs

#[derive(Clone)]
pub struct BTreeMap<K, V> {
    e: Vec<(K, V)>,
}

pub mod btree_map {
    pub use super::BTreeMap;
    pub struct Iter<'a, K, V> {
        pub(super) it: std::slice::Iter<'a, (K, V)>,
    }
    impl<'a, K, V> Iterator for Iter<'a, K, V> {
        type Item = (&'a K, &'a V);
        fn next(&mut self) -> Option<Self::Item> {
            self.it.next().map(|(k, v)| (k, v))
        }
    }
    impl<'a, K, V> Clone for Iter<'a, K, V> {
        fn clone(&self) -> Self {
            Iter { it: self.it.clone() }
        }
    }
    pub enum Entry<'a, K, V> {
        Occupied(OccupiedEntry<'a, K, V>),
        Vacant(VacantEntry<'a, K, V>),
    }
    pub struct OccupiedEntry<'a, K, V> {
        pub(super) m: &'a mut BTreeMap<K, V>,
        pub(super) i: usize,
    }
    pub struct VacantEntry<'a, K, V> {
        pub(super) m: &'a mut BTreeMap<K, V>,
        pub(super) i: usize,
        pub(super) k: K,
    }
    impl<'a, K, V> OccupiedEntry<'a, K, V> {
        pub fn get(&self) -> &V {
            &self.m.e[self.i].1
        }
        pub fn get_mut(&mut self) -> &mut V {
            &mut self.m.e[self.i].1
        }
        pub fn into_mut(self) -> &'a mut V {
            &mut self.m.e[self.i].1
        }
        pub fn key(&self) -> &K {
            &self.m.e[self.i].0
        }
        pub fn remove(self) -> V {
            self.m.e.remove(self.i).1
        }
        pub fn insert(&mut self, v: V) -> V {
            std::mem::replace(&mut self.m.e[self.i].1, v)
        }
    }
    impl<'a, K, V> VacantEntry<'a, K, V> {
        pub fn insert(self, v: V) -> &'a mut V {
            self.m.e.insert(self.i, (self.k, v));
            &mut self.m.e[self.i].1
        }
        pub fn key(&self) -> &K {
            &self.k
        }
    }
    impl<'a, K, V> Entry<'a, K, V> {
        pub fn or_insert(self, v: V) -> &'a mut V {
            match self {
                Entry::Occupied(o) => o.into_mut(),
                Entry::Vacant(va) => va.insert(v),
            }
        }
        pub fn or_insert_with<F: FnOnce() -> V>(self, f: F) -> &'a mut V {
            match self {
                Entry::Occupied(o) => o.into_mut(),
                Entry::Vacant(va) => va.insert(f()),
            }
        }
        pub fn or_default(self) -> &'a mut V
        where
            V: Default,
        {
            self.or_insert_with(V::default)
        }
        pub fn and_modify<F: FnOnce(&mut V)>(mut self, f: F) -> Self {
            if let Entry::Occupied(o) = &mut self {
                f(o.get_mut());
            }
            self
        }
    }
}

impl<K, V> BTreeMap<K, V> {
    pub const fn new() -> Self {
        BTreeMap { e: Vec::new() }
    }
    pub fn len(&self) -> usize {
        self.e.len()
    }
    pub fn is_empty(&self) -> bool {
        self.e.is_empty()
    }
    pub fn clear(&mut self) {
        self.e.clear()
    }
    pub fn iter(&self) -> btree_map::Iter<'_, K, V> {
        btree_map::Iter { it: self.e.iter() }
    }
    pub fn keys(&self) -> impl Iterator<Item = &K> + '_ {
        self.e.iter().map(|(k, _)| k)
    }
    pub fn values(&self) -> impl Iterator<Item = &V> + '_ {
        self.e.iter().map(|(_, v)| v)
    }
    pub fn values_mut(&mut self) -> impl Iterator<Item = &mut V> + '_ {
        self.e.iter_mut().map(|(_, v)| v)
    }
    pub fn iter_mut(&mut self) -> impl Iterator<Item = (&K, &mut V)> + '_ {
        self.e.iter_mut().map(|(k, v)| (&*k, v))
    }
}
impl<K: Ord, V> BTreeMap<K, V> {
    /// Position of `k`, or where it would be inserted.
    fn pos<Q: ?Sized + Ord>(&self, k: &Q) -> Result<usize, usize>
    where
        K: Borrow<Q>,
    {
        let mut i = 0;
        while i < self.e.len() {
            match self.e[i].0.borrow().cmp(k) {
                Ordering::Less => {}
                Ordering::Equal => return Ok(i),
                Ordering::Greater => return Err(i),
            }
            i += 1;
        }
        Err(i)
    }
    pub fn insert(&mut self, k: K, v: V) -> Option<V> {
        match self.pos(&k) {
            Ok(i) => Some(std::mem::replace(&mut self.e[i].1, v)),
            Err(i) => {
                self.e.insert(i, (k, v));
                None
            }
        }
    }
    pub fn get<Q: ?Sized + Ord>(&self, k: &Q) -> Option<&V>
    where
        K: Borrow<Q>,
    {
        match self.pos(k) {
            Ok(i) => Some(&self.e[i].1),
            Err(_) => None,
        }
    }
    pub fn get_mut<Q: ?Sized + Ord>(&mut self, k: &Q) -> Option<&mut V>
    where
        K: Borrow<Q>,
    {
        match self.pos(k) {
            Ok(i) => Some(&mut self.e[i].1),
            Err(_) => None,
        }
    }
    pub fn contains_key<Q: ?Sized + Ord>(&self, k: &Q) -> bool
    where
        K: Borrow<Q>,
    {
        self.pos(k).is_ok()
    }
    pub fn remove<Q: ?Sized + Ord>(&mut self, k: &Q) -> Option<V>
    where
        K: Borrow<Q>,
    {
        match self.pos(k) {
            Ok(i) => Some(self.e.remove(i).1),
            Err(_) => None,
        }
    }
    pub fn remove_entry<Q: ?Sized + Ord>(&mut self, k: &Q) -> Option<(K, V)>
    where
        K: Borrow<Q>,
    {
        match self.pos(k) {
            Ok(i) => Some(self.e.remove(i)),
            Err(_) => None,
        }
    }
    pub fn entry(&mut self, k: K) -> btree_map::Entry<'_, K, V> {
        match self.pos(&k) {
            Ok(i) => btree_map::Entry::Occupied(btree_map::OccupiedEntry { m: self, i }),
            Err(i) => btree_map::Entry::Vacant(btree_map::VacantEntry { m: self, i, k }),
        }
    }
    pub fn first_key_value(&self) -> Option<(&K, &V)> {
        self.e.first().map(|(k, v)| (k, v))
    }
}
impl<K, V> Default for BTreeMap<K, V> {
    fn default() -> Self {
        Self::new()
    }
}
impl<K: Debug, V: Debug> Debug for BTreeMap<K, V> {
    fn fmt(&self, f: &mut fmt::Formatter<'_>) -> fmt::Result {
        f.debug_map().entries(self.e.iter().map(|(k, v)| (k, v))).finish()
    }
}
impl<K: PartialEq, V: PartialEq> PartialEq for BTreeMap<K, V> {
    fn eq(&self, o: &Self) -> bool {
        self.e == o.e
    }
}
impl<K: Eq, V: Eq> Eq for BTreeMap<K, V> {}
impl<K: PartialOrd, V: PartialOrd> PartialOrd for BTreeMap<K, V> {
    fn partial_cmp(&self, o: &Self) -> Option<Ordering> {
        self.e.partial_cmp(&o.e)
    }
}
impl<K: Ord, V: Ord> Ord for BTreeMap<K, V> {
    fn cmp(&self, o: &Self) -> Ordering {
        self.e.cmp(&o.e)
    }
}
impl<K: Hash, V: Hash> Hash for BTreeMap<K, V> {
    fn hash<H: Hasher>(&self, state: &mut H) {
        state.write_usize(self.e.len());
        for (k, v) in &self.e {
            k.hash(state);
            v.hash(state);
        }
    }
}
impl<K: Ord, V> FromIterator<(K, V)> for BTreeMap<K, V> {
    fn from_iter<I: IntoIterator<Item = (K, V)>>(it: I) -> Self {
        let mut m = BTreeMap::new();
        for (k, v) in it {
            m.insert(k, v);
        }
        m
    }
}
impl<K: Ord, V> Extend<(K, V)> for BTreeMap<K, V> {
    fn extend<I: IntoIterator<Item = (K, V)>>(&mut self, it: I) {
        for (k, v) in it {
            self.insert(k, v);
        }
    }
}
impl<K, V> IntoIterator for BTreeMap<K, V> {
    type Item = (K, V);
    type IntoIter = std::vec::IntoIter<(K, V)>;
    fn into_iter(self) -> Self::IntoIter {
        self.e.into_iter()
    }
}
impl<'a, K, V> IntoIterator for &'a BTreeMap<K, V> {
    type Item = (&'a K, &'a V);
    type IntoIter = btree_map::Iter<'a, K, V>;
    fn into_iter(self) -> Self::IntoIter {
        self.iter()
    }
}
impl<K: Ord, Q: ?Sized + Ord, V> std::ops::Index<&Q> for BTreeMap<K, V>
where
    K: Borrow<Q>,
{
    type Output = V;
    fn index(&self, k: &Q) -> &V {
        self.get(k).expect("no entry found for key")
    }
}
impl<K: serde::Serialize, V: serde::Serialize> serde::Serialize for BTreeMap<K, V> {
    fn serialize<S: serde::Serializer>(&self, s: S) -> Result<S::Ok, S::Error> {
        s.collect_map(self.e.iter().map(|(k, v)| (k, v)))
    }
}

// ------------------------------------------------------------------------------------------------
// BTreeSet: sorted vector

#[derive(Clone)]
pub struct BTreeSet<T> {
    e: Vec<T>,
}
impl<T> BTreeSet<T> {
    pub const fn new() -> Self {
        BTreeSet { e: Vec::new() }
    }
    pub fn len(&self) -> usize {
        self.e.len()
    }
    pub fn is_empty(&self) -> bool {
        self.e.is_empty()
    }
    pub fn iter(&self) -> std::slice::Iter<'_, T> {
        self.e.iter()
    }
    pub fn clear(&mut self) {
        self.e.clear()
    }
}
impl<T: Ord> BTreeSet<T> {
    fn pos<Q: ?Sized + Ord>(&self, k: &Q) -> Result<usize, usize>
    where
        T: Borrow<Q>,
    {
        let mut i = 0;
        while i < self.e.len() {
            match self.e[i].borrow().cmp(k) {
                Ordering::Less => {}
                Ordering::Equal => return Ok(i),
                Ordering::Greater => return Err(i),
            }
            i += 1;
        }
        Err(i)
    }
    pub fn insert(&mut self, t: T) -> bool {
        match self.pos(&t) {
            Ok(_) => false,
            Err(i) => {
                self.e.insert(i, t);
                true
            }
        }
    }
    pub fn contains<Q: ?Sized + Ord>(&self, k: &Q) -> bool
    where
        T: Borrow<Q>,
    {
        self.pos(k).is_ok()
    }
    pub fn remove<Q: ?Sized + Ord>(&mut self, k: &Q) -> bool
    where
        T: Borrow<Q>,
    {
        match self.pos(k) {
            Ok(i) => {
                self.e.remove(i);
                true
            }
            Err(_) => false,
        }
    }
}
impl<T> Default for BTreeSet<T> {
    fn default() -> Self {
        Self::new()
    }
}
impl<T: Debug> Debug for BTreeSet<T> {
    fn fmt(&self, f: &mut fmt::Formatter<'_>) -> fmt::Result {
        f.debug_set().entries(self.e.iter()).finish()
    }
}
impl<T: PartialEq> PartialEq for BTreeSet<T> {
    fn eq(&self, o: &Self) -> bool {
        self.e == o.e
    }
}
impl<T: Eq> Eq for BTreeSet<T> {}
impl<T: PartialOrd> PartialOrd for BTreeSet<T> {
    fn partial_cmp(&self, o: &Self) -> Option<Ordering> {
        self.e.partial_cmp(&o.e)
    }
}
impl<T: Ord> Ord for BTreeSet<T> {
    fn cmp(&self, o: &Self) -> Ordering {
        self.e.cmp(&o.e)
    }
}
impl<T: Hash> Hash for BTreeSet<T> {
    fn hash<H: Hasher>(&self, state: &mut H) {
        state.write_usize(self.e.len());
        for t in &self.e {
            t.hash(state);
        }
    }
}
impl<T: Ord> FromIterator<T> for BTreeSet<T> {
    fn from_iter<I: IntoIterator<Item = T>>(it: I) -> Self {
        let mut s = BTreeSet::new();
        for t in it {
            s.insert(t);
        }
        s
    }
}
impl<T: Ord> Extend<T> for BTreeSet<T> {
    fn extend<I: IntoIterator<Item = T>>(&mut self, it: I) {
        for t in it {
            self.insert(t);
        }
    }
}
impl<T> IntoIterator for BTreeSet<T> {
    type Item = T;
    type IntoIter = std::vec::IntoIter<T>;
    fn into_iter(self) -> Self::IntoIter {
        self.e.into_iter()
    }
}
impl<'a, T> IntoIterator for &'a BTreeSet<T> {
    type Item = &'a T;
    type IntoIter = std::slice::Iter<'a, T>;
    fn into_iter(self) -> Self::IntoIter {
        self.e.iter()
    }
}
impl<T: serde::Serialize> serde::Serialize for BTreeSet<T> {
    fn serialize<S: serde::Serializer>(&self, s: S) -> Result<S::Ok, S::Error> {
        s.collect_seq(self.e.iter())
    }
}

// ------------------------------------------------------------------------------------------------
// HashMap: association list (unique keys by Eq, insertion order)

/// Default hasher-state parameter of the modelled hash containers: never consulted, and - unlike
/// `std::collections::hash_map::RandomState::new()` - built without the getrandom syscall.
#[derive(Clone, Copy, Debug, Default)]
pub struct ModelRandomState;
impl std::hash::BuildHasher for ModelRandomState {
    type Hasher = std::collections::hash_map::DefaultHasher;
    fn build_hasher(&self) -> Self::Hasher {
        std::collections::hash_map::DefaultHasher::new()
    }
}

pub struct HashMap<K, V, S = ModelRandomState> {
    e: Vec<(K, V)>,
    s: S,
}

pub mod hash_map {
    pub use super::HashMap;
    pub use super::ModelRandomState as RandomState;
    pub use std::collections::hash_map::DefaultHasher;
    pub struct Iter<'a, K, V> {
        pub(super) it: std::slice::Iter<'a, (K, V)>,
    }
    impl<'a, K, V> Iterator for Iter<'a, K, V> {
        type Item = (&'a K, &'a V);
        fn next(&mut self) -> Option<Self::Item> {
            self.it.next().map(|(k, v)| (k, v))
        }
        fn size_hint(&self) -> (usize, Option<usize>) {
            self.it.size_hint()
        }
    }
    impl<'a, K, V> Clone for Iter<'a, K, V> {
        fn clone(&self) -> Self {
            Iter { it: self.it.clone() }
        }
    }
    pub struct Keys<'a, K, V> {
        pub(super) it: std::slice::Iter<'a, (K, V)>,
    }
    impl<'a, K, V> Iterator for Keys<'a, K, V> {
        type Item = &'a K;
        fn next(&mut self) -> Option<Self::Item> {
            self.it.next().map(|(k, _)| k)
        }
    }
    pub struct Values<'a, K, V> {
        pub(super) it: std::slice::Iter<'a, (K, V)>,
    }
    impl<'a, K, V> Iterator for Values<'a, K, V> {
        type Item = &'a V;
        fn next(&mut self) -> Option<Self::Item> {
            self.it.next().map(|(_, v)| v)
        }
    }
    pub enum Entry<'a, K, V> {
        Occupied(OccupiedEntry<'a, K, V>),
        Vacant(VacantEntry<'a, K, V>),
    }
    pub struct OccupiedEntry<'a, K, V> {
        pub(super) e: &'a mut Vec<(K, V)>,
        pub(super) i: usize,
    }
    pub struct VacantEntry<'a, K, V> {
        pub(super) e: &'a mut Vec<(K, V)>,
        pub(super) k: K,
    }
    impl<'a, K, V> OccupiedEntry<'a, K, V> {
        pub fn get(&self) -> &V {
            &self.e[self.i].1
        }
        pub fn get_mut(&mut self) -> &mut V {
            &mut self.e[self.i].1
        }
        pub fn into_mut(self) -> &'a mut V {
            &mut self.e[self.i].1
        }
        pub fn key(&self) -> &K {
            &self.e[self.i].0
        }
        pub fn remove(self) -> V {
            self.e.remove(self.i).1
        }
        pub fn insert(&mut self, v: V) -> V {
            std::mem::replace(&mut self.e[self.i].1, v)
        }
    }
    impl<'a, K, V> VacantEntry<'a, K, V> {
        pub fn insert(self, v: V) -> &'a mut V {
            self.e.push((self.k, v));
            let n = self.e.len() - 1;
            &mut self.e[n].1
        }
        pub fn key(&self) -> &K {
            &self.k
        }
    }
    impl<'a, K, V> Entry<'a, K, V> {
        pub fn or_insert(self, v: V) -> &'a mut V {
            match self {
                Entry::Occupied(o) => o.into_mut(),
                Entry::Vacant(va) => va.insert(v),
            }
        }
        pub fn or_insert_with<F: FnOnce() -> V>(self, f: F) -> &'a mut V {
            match self {
                Entry::Occupied(o) => o.into_mut(),
                Entry::Vacant(va) => va.insert(f()),
            }
        }
        pub fn or_default(self) -> &'a mut V
        where
            V: Default,
        {
            self.or_insert_with(V::default)
        }
        pub fn and_modify<F: FnOnce(&mut V)>(mut self, f: F) -> Self {
            if let Entry::Occupied(o) = &mut self {
                f(o.get_mut());
            }
            self
        }
    }
}

impl<K, V> HashMap<K, V, ModelRandomState> {
    pub fn new() -> Self {
        HashMap { e: Vec::new(), s: Default::default() }
    }
    pub fn with_capacity(n: usize) -> Self {
        HashMap { e: Vec::with_capacity(n), s: Default::default() }
    }
}
impl<K, V, S> HashMap<K, V, S> {
    pub fn with_hasher(s: S) -> Self {
        HashMap { e: Vec::new(), s }
    }
    pub fn with_capacity_and_hasher(n: usize, s: S) -> Self {
        HashMap { e: Vec::with_capacity(n), s }
    }
    pub fn hasher(&self) -> &S {
        &self.s
    }
    pub fn len(&self) -> usize {
        self.e.len()
    }
    pub fn is_empty(&self) -> bool {
        self.e.is_empty()
    }
    pub fn clear(&mut self) {
        self.e.clear()
    }
    pub fn iter(&self) -> hash_map::Iter<'_, K, V> {
        hash_map::Iter { it: self.e.iter() }
    }
    pub fn keys(&self) -> hash_map::Keys<'_, K, V> {
        hash_map::Keys { it: self.e.iter() }
    }
    pub fn values(&self) -> hash_map::Values<'_, K, V> {
        hash_map::Values { it: self.e.iter() }
    }
    pub fn values_mut(&mut self) -> impl Iterator<Item = &mut V> + '_ {
        self.e.iter_mut().map(|(_, v)| v)
    }
    pub fn iter_mut(&mut self) -> impl Iterator<Item = (&K, &mut V)> + '_ {
        self.e.iter_mut().map(|(k, v)| (&*k, v))
    }
    pub fn drain(&mut self) -> std::vec::Drain<'_, (K, V)> {
        self.e.drain(..)
    }
    pub fn reserve(&mut self, _n: usize) {}
}
impl<K: Eq, V, S> HashMap<K, V, S> {
    fn pos<Q: ?Sized + Eq>(&self, k: &Q) -> Option<usize>
    where
        K: Borrow<Q>,
    {
        let mut i = 0;
        while i < self.e.len() {
            if self.e[i].0.borrow() == k {
                return Some(i);
            }
            i += 1;
        }
        None
    }
    pub fn insert(&mut self, k: K, v: V) -> Option<V> {
        match self.pos(&k) {
            Some(i) => Some(std::mem::replace(&mut self.e[i].1, v)),
            None => {
                self.e.push((k, v));
                None
            }
        }
    }
    pub fn get<Q: ?Sized + Eq>(&self, k: &Q) -> Option<&V>
    where
        K: Borrow<Q>,
    {
        self.pos(k).map(|i| &self.e[i].1)
    }
    pub fn get_mut<Q: ?Sized + Eq>(&mut self, k: &Q) -> Option<&mut V>
    where
        K: Borrow<Q>,
    {
        match self.pos(k) {
            Some(i) => Some(&mut self.e[i].1),
            None => None,
        }
    }
    pub fn get_key_value<Q: ?Sized + Eq>(&self, k: &Q) -> Option<(&K, &V)>
    where
        K: Borrow<Q>,
    {
        self.pos(k).map(|i| (&self.e[i].0, &self.e[i].1))
    }
    pub fn contains_key<Q: ?Sized + Eq>(&self, k: &Q) -> bool
    where
        K: Borrow<Q>,
    {
        self.pos(k).is_some()
    }
    pub fn remove<Q: ?Sized + Eq>(&mut self, k: &Q) -> Option<V>
    where
        K: Borrow<Q>,
    {
        self.pos(k).map(|i| self.e.remove(i).1)
    }
    pub fn remove_entry<Q: ?Sized + Eq>(&mut self, k: &Q) -> Option<(K, V)>
    where
        K: Borrow<Q>,
    {
        self.pos(k).map(|i| self.e.remove(i))
    }
    pub fn entry(&mut self, k: K) -> hash_map::Entry<'_, K, V> {
        match self.pos(&k) {
            Some(i) => hash_map::Entry::Occupied(hash_map::OccupiedEntry { e: &mut self.e, i }),
            None => hash_map::Entry::Vacant(hash_map::VacantEntry { e: &mut self.e, k }),
        }
    }
    pub fn retain<F: FnMut(&K, &mut V) -> bool>(&mut self, mut f: F) {
        self.e.retain_mut(|(k, v)| f(k, v))
    }
}
impl<K: Clone, V: Clone, S: Clone> Clone for HashMap<K, V, S> {
    fn clone(&self) -> Self {
        HashMap { e: self.e.clone(), s: self.s.clone() }
    }
}
impl<K, V, S: Default> Default for HashMap<K, V, S> {
    fn default() -> Self {
        HashMap { e: Vec::new(), s: S::default() }
    }
}
impl<K: Debug, V: Debug, S> Debug for HashMap<K, V, S> {
    fn fmt(&self, f: &mut fmt::Formatter<'_>) -> fmt::Result {
        f.debug_map().entries(self.e.iter().map(|(k, v)| (k, v))).finish()
    }
}
impl<K: Eq, V: PartialEq, S> PartialEq for HashMap<K, V, S> {
    /// Order-insensitive, as for `std::collections::HashMap`.
    fn eq(&self, o: &Self) -> bool {
        if self.e.len() != o.e.len() {
            return false;
        }
        let mut i = 0;
        while i < self.e.len() {
            match o.pos(&self.e[i].0) {
                Some(j) => {
                    if self.e[i].1 != o.e[j].1 {
                        return false;
                    }
                }
                None => return false,
            }
            i += 1;
        }
        true
    }
}
impl<K: Eq, V: Eq, S> Eq for HashMap<K, V, S> {}
impl<K: Eq, V, S: Default> FromIterator<(K, V)> for HashMap<K, V, S> {
    fn from_iter<I: IntoIterator<Item = (K, V)>>(it: I) -> Self {
        let mut m = HashMap::with_hasher(S::default());
        for (k, v) in it {
            m.insert(k, v);
        }
        m
    }
}
impl<K: Eq, V, S> Extend<(K, V)> for HashMap<K, V, S> {
    fn extend<I: IntoIterator<Item = (K, V)>>(&mut self, it: I) {
        for (k, v) in it {
            self.insert(k, v);
        }
    }
}
impl<K, V, S> IntoIterator for HashMap<K, V, S> {
    type Item = (K, V);
    type IntoIter = std::vec::IntoIter<(K, V)>;
    fn into_iter(self) -> Self::IntoIter {
        self.e.into_iter()
    }
}
impl<'a, K, V, S> IntoIterator for &'a HashMap<K, V, S> {
    type Item = (&'a K, &'a V);
    type IntoIter = hash_map::Iter<'a, K, V>;
    fn into_iter(self) -> Self::IntoIter {
        self.iter()
    }
}
impl<K: Eq, Q: ?Sized + Eq, V, S> std::ops::Index<&Q> for HashMap<K, V, S>
where
    K: Borrow<Q>,
{
    type Output = V;
    fn index(&self, k: &Q) -> &V {
        self.get(k).expect("no entry found for key")
    }
}
impl<K: serde::Serialize, V: serde::Serialize, H> serde::Serialize for HashMap<K, V, H> {
    fn serialize<S: serde::Serializer>(&self, s: S) -> Result<S::Ok, S::Error> {
        s.collect_map(self.e.iter().map(|(k, v)| (k, v)))
    }
}
impl<'de, K: Eq + serde::Deserialize<'de>, V: serde::Deserialize<'de>, H: Default> serde::Deserialize<'de> for HashMap<K, V, H> {
    fn deserialize<D: serde::Deserializer<'de>>(d: D) -> Result<Self, D::Error> {
        let v: Vec<(K, V)> = serde::Deserialize::deserialize(d)?;
        Ok(v.into_iter().collect())
    }
}

// ------------------------------------------------------------------------------------------------
// HashSet: vector without duplicates (by Eq), insertion order

pub struct HashSet<T, S = ModelRandomState> {
    e: Vec<T>,
    s: S,
}

pub mod hash_set {
    pub use super::HashSet;
    pub struct Iter<'a, T> {
        pub(super) it: std::slice::Iter<'a, T>,
    }
    impl<'a, T> Iterator for Iter<'a, T> {
        type Item = &'a T;
        fn next(&mut self) -> Option<Self::Item> {
            self.it.next()
        }
        fn size_hint(&self) -> (usize, Option<usize>) {
            self.it.size_hint()
        }
    }
    impl<'a, T> Clone for Iter<'a, T> {
        fn clone(&self) -> Self {
            Iter { it: self.it.clone() }
        }
    }
}

impl<T> HashSet<T, ModelRandomState> {
    pub fn new() -> Self {
        HashSet { e: Vec::new(), s: Default::default() }
    }
    pub fn with_capacity(n: usize) -> Self {
        HashSet { e: Vec::with_capacity(n), s: Default::default() }
    }
}
impl<T, S> HashSet<T, S> {
    pub fn with_hasher(s: S) -> Self {
        HashSet { e: Vec::new(), s }
    }
    pub fn with_capacity_and_hasher(n: usize, s: S) -> Self {
        HashSet { e: Vec::with_capacity(n), s }
    }
    pub fn hasher(&self) -> &S {
        &self.s
    }
    pub fn len(&self) -> usize {
        self.e.len()
    }
    pub fn is_empty(&self) -> bool {
        self.e.is_empty()
    }
    pub fn clear(&mut self) {
        self.e.clear()
    }
    pub fn iter(&self) -> hash_set::Iter<'_, T> {
        hash_set::Iter { it: self.e.iter() }
    }
    pub fn drain(&mut self) -> std::vec::Drain<'_, T> {
        self.e.drain(..)
    }
    pub fn reserve(&mut self, _n: usize) {}
}
impl<T: Eq, S> HashSet<T, S> {
    fn pos<Q: ?Sized + Eq>(&self, k: &Q) -> Option<usize>
    where
        T: Borrow<Q>,
    {
        let mut i = 0;
        while i < self.e.len() {
            if self.e[i].borrow() == k {
                return Some(i);
            }
            i += 1;
        }
        None
    }
    pub fn insert(&mut self, t: T) -> bool {
        match self.pos(&t) {
            Some(_) => false,
            None => {
                self.e.push(t);
                true
            }
        }
    }
    pub fn contains<Q: ?Sized + Eq>(&self, k: &Q) -> bool
    where
        T: Borrow<Q>,
    {
        self.pos(k).is_some()
    }
    pub fn get<Q: ?Sized + Eq>(&self, k: &Q) -> Option<&T>
    where
        T: Borrow<Q>,
    {
        self.pos(k).map(|i| &self.e[i])
    }
    pub fn remove<Q: ?Sized + Eq>(&mut self, k: &Q) -> bool
    where
        T: Borrow<Q>,
    {
        match self.pos(k) {
            Some(i) => {
                self.e.remove(i);
                true
            }
            None => false,
        }
    }
    pub fn take<Q: ?Sized + Eq>(&mut self, k: &Q) -> Option<T>
    where
        T: Borrow<Q>,
    {
        self.pos(k).map(|i| self.e.remove(i))
    }
    pub fn retain<F: FnMut(&T) -> bool>(&mut self, f: F) {
        self.e.retain(f)
    }
    pub fn is_subset(&self, o: &Self) -> bool {
        self.e.iter().all(|x| o.contains(x))
    }
}
impl<T: Clone, S: Clone> Clone for HashSet<T, S> {
    fn clone(&self) -> Self {
        HashSet { e: self.e.clone(), s: self.s.clone() }
    }
}
impl<T, S: Default> Default for HashSet<T, S> {
    fn default() -> Self {
        HashSet { e: Vec::new(), s: S::default() }
    }
}
impl<T: Debug, S> Debug for HashSet<T, S> {
    fn fmt(&self, f: &mut fmt::Formatter<'_>) -> fmt::Result {
        f.debug_set().entries(self.e.iter()).finish()
    }
}
impl<T: Eq, S> PartialEq for HashSet<T, S> {
    /// Order-insensitive, as for `std::collections::HashSet`.
    fn eq(&self, o: &Self) -> bool {
        if self.e.len() != o.e.len() {
            return false;
        }
        let mut i = 0;
        while i < self.e.len() {
            if o.pos(&self.e[i]).is_none() {
                return false;
            }
            i += 1;
        }
        true
    }
}
impl<T: Eq, S> Eq for HashSet<T, S> {}
impl<T: Eq, S: Default> FromIterator<T> for HashSet<T, S> {
    fn from_iter<I: IntoIterator<Item = T>>(it: I) -> Self {
        let mut s = HashSet::with_hasher(S::default());
        for t in it {
            s.insert(t);
        }
        s
    }
}
impl<T: Eq, S> Extend<T> for HashSet<T, S> {
    fn extend<I: IntoIterator<Item = T>>(&mut self, it: I) {
        for t in it {
            self.insert(t);
        }
    }
}
impl<T, S> IntoIterator for HashSet<T, S> {
    type Item = T;
    type IntoIter = std::vec::IntoIter<T>;
    fn into_iter(self) -> Self::IntoIter {
        self.e.into_iter()
    }
}
impl<'a, T, S> IntoIterator for &'a HashSet<T, S> {
    type Item = &'a T;
    type IntoIter = hash_set::Iter<'a, T>;
    fn into_iter(self) -> Self::IntoIter {
        self.iter()
    }
}
impl<T: serde::Serialize, H> serde::Serialize for HashSet<T, H> {
    fn serialize<S: serde::Serializer>(&self, s: S) -> Result<S::Ok, S::Error> {
        s.collect_seq(self.e.iter())
    }
}
impl<'de, T: Eq + serde::Deserialize<'de>, H: Default> serde::Deserialize<'de> for HashSet<T, H> {
    fn deserialize<D: serde::Deserializer<'de>>(d: D) -> Result<Self, D::Error> {
        let v: Vec<T> = serde::Deserialize::deserialize(d)?;
        Ok(v.into_iter().collect())
    }
}

struct _Unused(PhantomData<()>);

/// Model of `<[u64]>::sort_unstable` (used by the order-insensitive hashing in util.rs): an
/// insertion sort.  Contract: the slice ends up an ascending permutation of its contents.  The
/// real implementation (pattern-defeating quicksort with sorting networks for small slices)
/// makes CBMC explore every network as soon as the slice length is not a compile-time constant.
pub fn sort_u64(v: &mut [u64]) {
    let n = v.len();
    let mut i = 1;
    while i < n {
        let mut j = i;
        while j > 0 && v[j - 1] > v[j] {
            v.swap(j - 1, j);
            j -= 1;
        }
        i += 1;
    }
}
