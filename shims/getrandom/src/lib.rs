//! Verification model of `getrandom` 0.3 (used by ahash's `RandomState::new`): the OS entropy
//! syscall cannot be executed symbolically, so buffers are filled with fixed bytes.
//! Contract relied upon: hasher seeds only influence the iteration order of hash tables, never
//! the value-level behaviour of stateright (its own hashing uses fixed keys, see `stable`).
#[derive(Debug, Clone, Copy, PartialEq, Eq)]
pub struct Error;
impl core::fmt::Display for Error {
    fn fmt(&self, f: &mut core::fmt::Formatter<'_>) -> core::fmt::Result {
        f.write_str("getrandom model error")
    }
}
impl std::error::Error for Error {}

pub fn fill(dest: &mut [u8]) -> Result<(), Error> {
    // memset: no loop for the verifier to unwind
    unsafe { core::ptr::write_bytes(dest.as_mut_ptr(), 0x5a, dest.len()) };
    Ok(())
}
pub fn fill_uninit(dest: &mut [core::mem::MaybeUninit<u8>]) -> Result<&mut [u8], Error> {
    unsafe { core::ptr::write_bytes(dest.as_mut_ptr() as *mut u8, 0x5a, dest.len()) };
    Ok(unsafe { core::slice::from_raw_parts_mut(dest.as_mut_ptr() as *mut u8, dest.len()) })
}
pub fn u32() -> Result<u32, Error> {
    Ok(0x5a5a5a5a)
}
pub fn u64() -> Result<u64, Error> {
    Ok(0x5a5a5a5a5a5a5a5a)
}
