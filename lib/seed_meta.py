#!/usr/bin/env python3
"""Writes /verif/seeded/<id>/meta.json from the confirmation and detection logs."""
import json, os, re, sys, glob
V='/verif/seeded'
conf={}
for lg in glob.glob('/tmp/confirm_all.log')+glob.glob('/tmp/seed_all*.log'):
    for l in open(lg):
        m=re.match(r'RESULT (\S+): (CONFIRMED|NOT CONFIRMED) \((.*)\)',l)
        if m: conf[m.group(1)]=(m.group(2),m.group(3))
det={}
for lg in sorted(glob.glob('/tmp/seed_all*.log')):
    for l in open(lg):
        m=re.match(r'SEEDED (\S+) (\S+): (DETECTED|MISSED|INCONCLUSIVE)(.*)',l)
        if m: det.setdefault(m.group(1),{})[m.group(2)]=(m.group(3),m.group(4).strip()[:600])
props={json.loads(l)['id']:json.loads(l)['title'] for l in open('/verif/properties.jsonl')}
for d in sorted(os.listdir(V)):
    p=os.path.join(V,d)
    if not os.path.isdir(p): continue
    pid=d.split('-')[0]
    notes=open(os.path.join(p,'notes.md')).read() if os.path.exists(os.path.join(p,'notes.md')) else ''
    meta={
      'id':d,'breaks_property':pid,'property_title':props.get(pid),
      'needs_to_manifest': (re.search(r'(?is)(trigger|manifest)[^\n]*\n(.{0,700})',notes).group(2).strip() if re.search(r'(?is)(trigger|manifest)',notes) else 'see notes.md'),
      'confirmed_by_me': {'result':conf.get(d,('?',''))[0],'what_i_ran':'lib/confirm_mutant.sh: git worktree of /repo HEAD + git apply patch.diff; cargo test --lib --offline (expect 84 passed / 3 known failures); demo.rs appended to the target file, cargo test --lib --offline <filter>: must FAIL with the patch and PASS without it','details':conf.get(d,('', ''))[1]},
      'checks_run_against_it': {k:{'outcome':v[0],'detail':v[1]} for k,v in det.get(d,{}).items()},
    }
    json.dump(meta,open(os.path.join(p,'meta.json'),'w'),indent=1)
    print(d, conf.get(d,('?',))[0], {k:v[0] for k,v in det.get(d,{}).items()})
