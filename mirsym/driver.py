#!/usr/bin/env python3
"""Engine M driver: regenerates the MIR of job_market.rs from /repo's working tree, derives the
broker's segment summaries by symbolic execution, and discharges the C05 / C12 obligations with z3.
Run with python3-vt (needs z3).  Exit codes as for lib/runner.py."""
import hashlib
import json
import os
import re
import shutil
import subprocess
import sys
import time

HERE = os.path.dirname(os.path.abspath(__file__))
VERIF = os.path.dirname(HERE)
sys.path.insert(0, HERE)
REPO = os.environ.get("VERIF_REPO", "/repo")
SCRATCH_ROOT = os.environ.get("VERIF_SCRATCH", "/var/tmp/verif-scratch")
CACHE_ROOT = os.environ.get("VERIF_CACHE", "/var/tmp/verif-cache")

import z3  # noqa: E402
from mir import Unsupported  # noqa: E402
from jobmarket import BrokerModel  # noqa: E402
from bmc import Protocol  # noqa: E402
import checks
from symex import SOLVER_STATS
import workerloop  # noqa: E402
import blockloop  # noqa: E402
import discloop  # noqa: E402
import spawnflow  # noqa: E402
import runtimeloop  # noqa: E402
import steploop  # noqa: E402
import replay as rp  # noqa: E402
import validate as tv  # noqa: E402


def log(*a):
    print(*a, file=sys.stderr, flush=True)


PATCH = """
[patch.crates-io]
log = {{ path = "{v}/shims/log" }}
parking_lot = {{ path = "{v}/shims/parking_lot" }}

[lints.rust]
unexpected_cfgs = "allow"
unused = "allow"
"""


def make_scratch(pid):
    tag = os.environ.get("VERIF_SCRATCH_TAG", "")
    d = os.path.join(SCRATCH_ROOT, f"{pid}-mir{tag}-{os.getpid()}")
    shutil.rmtree(d, ignore_errors=True)
    os.makedirs(d)
    for name in ("sr", "pristine"):
        subprocess.run(["rsync", "-r", "--links", "--exclude", "/target", "--exclude", "/.git", REPO + "/", os.path.join(d, name) + "/"], check=True)
    for name in ("sr", "pristine"):
        if not os.path.exists(os.path.join(d, name, "Cargo.lock")) and os.path.exists("/repo/Cargo.lock"):
            shutil.copy("/repo/Cargo.lock", os.path.join(d, name, "Cargo.lock"))
    with open(os.path.join(d, "sr", "Cargo.toml"), "a") as f:
        f.write(PATCH.format(v=VERIF))
    return d


def dump_mir(d):
    env = dict(os.environ)
    env["CARGO_NET_OFFLINE"] = "true"
    env["CARGO_TARGET_DIR"] = os.path.join(CACHE_ROOT, "target-mir")
    env.pop("RUSTFLAGS", None)
    t0 = time.time()
    p = subprocess.run(["cargo", "+nightly", "rustc", "--offline", "--lib", "--", "-Zunpretty=mir", "-C", "debug-assertions=off", "-C", "overflow-checks=on"],
                       cwd=os.path.join(d, "sr"), env=env, stdout=subprocess.PIPE, stderr=subprocess.PIPE, text=True)
    if p.returncode != 0 or "fn job_market::" not in p.stdout:
        raise Unsupported("MIR dump failed: " + p.stderr[-1500:])
    return p.stdout, time.time() - t0


def tree_hash():
    h = hashlib.sha256()
    for root, _, files in sorted(os.walk(os.path.join(REPO, "src"))):
        for fn in sorted(files):
            p = os.path.join(root, fn)
            h.update(p.encode())
            h.update(open(p, "rb").read())
    return h.hexdigest()[:16]


def load_known():
    p = os.path.join(VERIF, "known_findings.json")
    if not os.path.exists(p):
        return []
    return [e for e in json.load(open(p)).get("findings", []) if e.get("status") == "known"]


def worker_obligations(pid, mir_text, info, add, violations, inconclusive, only_observation=False):
    """Obligations on the bfs.rs/dfs.rs worker closures (workerloop.py)."""
    closures = workerloop.find_worker_closures(mir_text)
    missing = [k for k in ("bfs", "dfs") if k not in closures]
    if missing:
        raise Unsupported(f"worker closure(s) calling JobBroker::pop not found for {missing}")
    info["worker_closures"] = {}
    for name in ("bfs", "dfs"):
        res, winfo = workerloop.obligations(name, closures[name])
        winfo["mir_sha256"] = hashlib.sha256(closures[name].encode()).hexdigest()[:12]
        info["worker_closures"][name] = winfo
        info["functions_encoded"].append(f"checker::{name} worker closure {winfo['function'].split('::')[-1]} (MIR sha256 {winfo['mir_sha256']}, {winfo['blocks']} basic blocks, {winfo['round_paths']} paths per round)")
        for o in res:
            if only_observation and "on a closed market the round" not in o["obligation"] and "the worker leaves only after" not in o["obligation"]:
                continue
            add(o["obligation"], o["result"], **({"witness": o["witness"]} if o.get("witness") else {}))
            if o["result"] == "sat":
                violations.append({"property": pid, "obligation": o["obligation"], "static": True, "witness": o.get("witness")})
            elif o["result"] != "unsat":
                inconclusive.append(o["obligation"] + ": " + o["result"])
    if "on_demand" in closures:
        info.setdefault("notes", []).append("on_demand.rs worker closure (blocks on a control channel, nested loop) is not encoded")


def initial_depth(name, mir_text):
    try:
        return blockloop.initial_depth(name, mir_text)
    except Unsupported as e:
        if "was not found" not in str(e):
            raise
        return spawnflow.initial_depth_in_spawn(name, mir_text)


def depth_obligations(pid, mir_text, info, add, violations, inconclusive):
    """Depth-limit obligations on check_block of bfs.rs/dfs.rs (blockloop.py)."""
    cbs = blockloop.find_check_blocks(mir_text)
    missing = [k for k in ("bfs", "dfs") if k not in cbs]
    if missing:
        raise Unsupported(f"check_block not found for {missing}")
    info["check_block"] = {}
    for name in ("bfs", "dfs"):
        res, binfo = blockloop.obligations(name, cbs[name], helpers=blockloop.find_helpers(mir_text, name))
        res = res + initial_depth(name, mir_text)
        binfo["mir_sha256"] = hashlib.sha256(cbs[name].encode()).hexdigest()[:12]
        info["check_block"][name] = binfo
        info["functions_encoded"].append(f"checker::{name}::check_block (MIR sha256 {binfo['mir_sha256']}, {binfo['blocks']} basic blocks, {binfo['round_paths']} paths per job, inner loops {binfo['inner_loops_havocked']} abstracted by havoc)")
        seen_kinds = set()
        for o in res:
            add(o["obligation"], o["result"], **({"witness": o["witness"]} if o.get("witness") else {}))
            kind = (name, o["obligation"].split(": ", 2)[-1])
            if o["result"] == "sat":
                if kind not in seen_kinds:  # one VIOLATION per checker and obligation kind; all paths stay in the evidence
                    seen_kinds.add(kind)
                    violations.append({"property": pid, "obligation": o["obligation"], "static": True, "witness": o.get("witness")})
            elif o["result"] != "unsat":
                inconclusive.append(o["obligation"] + ": " + o["result"])


DISC_PIDS = ("C01", "C02", "C03", "C11")


def disc_obligations(pid, d, mir_text, t_mir, info, add, violations, inconclusive):
    """C01/C02/C03/C11: what one job of check_block does with properties, eventually-bits, the visited set and the boundary (discloop.py)."""
    cbs = blockloop.find_check_blocks(mir_text)
    lib_rs = open(os.path.join(d, "sr", "src", "lib.rs")).read()
    info["functions_encoded"] = []
    info["mir_dump_s"] = round(t_mir, 1)
    info["check_block"] = {}
    q = 0
    seen_kinds = set()
    for name in ("bfs", "dfs", "on_demand"):
        if name not in cbs:
            raise Unsupported(f"{name}.rs check_block not found in the MIR")
        res, binfo = discloop.obligations(name, cbs[name], lib_rs, helpers=blockloop.find_helpers(mir_text, name))
        binfo["mir_sha256"] = hashlib.sha256(cbs[name].encode()).hexdigest()[:12]
        if pid in ("C01", "C02") and name != "on_demand":
            # every dequeued job is evaluated unless the depth limit says otherwise (obligation D1 of blockloop.py, shared with C12)
            dres, _ = blockloop.obligations(name, cbs[name], helpers=blockloop.find_helpers(mir_text, name))
            res = res + [dict(o, tag="C01,C02") for o in dres if "a popped job is skipped only" in o["obligation"]]
        sres, sinfo = discloop.spawn_obligations(name, mir_text, lib_rs)
        info.setdefault("spawn", {})[name] = sinfo
        res = res + sres
        mine = [o for o in res if pid in o["tag"].split(",")]
        binfo["obligations_of_this_property"] = len(mine)
        binfo["obligations_all_four_properties"] = len(res)
        info["check_block"][name] = binfo
        q += binfo["z3_feasibility_queries"]
        info["functions_encoded"].append(f"checker::{name}::check_block (MIR sha256 {binfo['mir_sha256']}, {binfo['blocks']} basic blocks, {binfo['round_paths']} paths per job, inner loops {binfo['inner_loops_havocked']} abstracted by havoc)")
        info["functions_encoded"].append(f"checker::{name} spawn() ({sinfo['blocks']} basic blocks, {sinfo['paths']} paths, loops {sinfo['loops_havocked']} havocked) and its boundary-filter closure ({sinfo['filter_closures']})")
        if not mine:
            raise Unsupported(f"{name} check_block: no obligation of {pid} could be stated")
        for o in mine:
            add(o["obligation"], o["result"])
            kind = name + ":" + re.sub(r" \(.*\)$", "", o["obligation"].split(": ", 2)[-1])
            if o["result"] == "sat":
                if kind not in seen_kinds:
                    seen_kinds.add(kind)
                    violations.append({"property": pid, "obligation": o["obligation"], "static": True, "witness": {"checker": name}})
            elif o["result"] != "unsat":
                inconclusive.append(o["obligation"] + ": " + o["result"])
    # the simulation checker's trace function (C02/C03/C11 clauses that mention simulation)
    if pid in ("C02", "C03", "C11"):
        mres, minfo = discloop.sim_obligations(mir_text, lib_rs)
        info["simulation"] = minfo
        info["functions_encoded"].append(f"checker::simulation::check_trace_from_initial ({minfo['blocks']} basic blocks, {minfo['paths']} paths, every loop {minfo['loops_havocked']} havocked)")
        seen_sim = set()
        for o in mres:
            if pid not in o["tag"].split(","):
                continue
            add(o["obligation"], o["result"])
            kind = o["obligation"].split(": ", 2)[-1]
            if o["result"] == "sat":
                if kind not in seen_sim:
                    seen_sim.add(kind)
                    violations.append({"property": pid, "obligation": o["obligation"], "static": True, "witness": {"checker": "simulation"}})
            elif o["result"] != "unsat":
                inconclusive.append(o["obligation"] + ": " + o["result"])
    if pid == "C02":
        ares, ainfo = discloop.assert_obligations(mir_text, lib_rs)
        info["assert_properties"] = ainfo
        info["functions_encoded"] += ainfo["functions"]
        for o in ares:
            add(o["obligation"], o["result"])
            if o["result"] == "sat":
                violations.append({"property": pid, "obligation": o["obligation"], "static": True, "witness": {"function": "assert_properties"}})
            elif o["result"] != "unsat":
                inconclusive.append(o["obligation"] + ": " + o["result"])
    info["z3_feasibility_queries"] = q


def run_c17_part(d, mir_text, t_mir, tier, seed, known, t0):
    """C17, runtime-loop clause (the Kani harnesses of C17 are run by lib/runner.py, which merges this
    part into evidence/C17.json): writes $VERIF_PART_OUT and prints VIOLATION / INCONCLUSIVE lines."""
    pid = "C17"
    obligations, violations, inconclusive, confirmed = [], [], [], []
    info = {}
    try:
        res, info = runtimeloop.obligations(mir_text)
        info["mir_sha256"] = hashlib.sha256((runtimeloop.find_runtime_closure(mir_text) or "").encode()).hexdigest()[:12]
        seen = set()
        for o in res:
            obligations.append(o)
            kind = o["obligation"].split(": ", 2)[-1]
            if o["result"] == "sat":
                if kind not in seen:
                    seen.add(kind)
                    violations.append({"property": pid, "obligation": o["obligation"], "static": True, "witness": o.get("witness")})
            elif o["result"] != "unsat":
                inconclusive.append(o["obligation"] + ": " + o["result"])
    except Unsupported as e:
        inconclusive.append("encoder: " + str(e))
    except Exception:  # noqa: BLE001
        import traceback
        inconclusive.append("internal error: " + traceback.format_exc()[-1200:])
    try:
        for v in violations:
            rdir = os.path.join(os.environ.get("VERIF_REPLAY_DIR", os.path.join(VERIF, "replays")), pid)
            os.makedirs(rdir, exist_ok=True)
            path = os.path.join(rdir, "static-" + re.sub(r"\W+", "_", v["obligation"])[:60] + ".json")
            ok, out = replay_static(d, pid, v)
            json.dump(v, open(path, "w"), indent=1, default=str)
            log(f"[C17] replay of `{v['obligation'][:70]}`: {'reproduced' if ok else ('NOT reproduced' if ok is False else 'inconclusive')}")
            if ok:
                confirmed.append((v, path))
            else:
                inconclusive.append(f"counterexample for `{v['obligation']}` did not reproduce natively ({'ran clean' if ok is False else 'divergence/build problem'}): {out[-400:]}")
    except Exception:  # noqa: BLE001
        import traceback
        inconclusive.append("native replay failed to run: " + traceback.format_exc()[-800:])
    finally:
        shutil.rmtree(d, ignore_errors=True)
    part = {
        "engine": "mirsym: lenient symbolic execution of the MIR of actor::spawn::spawn's per-actor thread closure (every callee arbitrary, loops havocked, opaque values with recorded provenance); z3 decides path feasibility",
        "function": info.get("function"), "mir_sha256": info.get("mir_sha256"), "blocks": info.get("blocks"), "start_up_paths": info.get("start_up_paths"), "round_paths": info.get("round_paths"),
        "obligations": len(obligations), "discharged": sum(1 for o in obligations if o["result"] == "unsat"),
        "solver_queries": SOLVER_STATS["queries"], "solver_time_s": round(SOLVER_STATS["time"], 2), "mir_dump_s": round(t_mir, 1),
        "samples": obligations[:40], "inconclusive": inconclusive, "violations": len(confirmed), "wall_s": round(time.time() - t0, 1),
        "explanation": runtimeloop.__doc__.split("Obligations:")[1].strip(),
        "outside": ["what the sockets deliver (the OS), which interrupt is the earliest (min_by_key over the pending map), that `set_read_timeout` bounds the wait, serialization in on_command's Send arm (Id -> address is decided by the Kani harnesses), the non-IPv4 and parse-error arms beyond 'no handler is called'"],
    }
    out = os.environ.get("VERIF_PART_OUT")
    if out:
        json.dump(part, open(out, "w"), indent=1, default=str)
    for v, path in confirmed:
        print(f"VIOLATION property={pid} replay={path}")
        print(f"  failed: {v['obligation']}")
    if confirmed:
        return 1
    if inconclusive:
        for x in inconclusive:
            print(f"INCONCLUSIVE property={pid}: {x[:1500]}")
        return 2
    log(f"[C17] runtime loop: {part['discharged']}/{part['obligations']} obligations discharged by z3")
    return 0


def run(pid, tier, seed, replay_path=None):
    t0 = time.time()
    # VERIF_SEED only perturbs the solver's search (never the encoding or the bounds)
    z3.set_param("smt.random_seed", int(seed) % (2 ** 31))
    z3.set_param("sat.random_seed", int(seed) % (2 ** 31))
    d = make_scratch(pid)
    obligations = []  # dicts: name, result ('unsat' = discharged), detail
    violations, inconclusive, known_hits = [], [], []
    samples = []
    info = {}
    known = load_known()
    try:
        if replay_path:
            cex = json.load(open(replay_path))
            if cex.get("static"):
                ok, out = replay_static(d, pid, cex)
            else:
                ok, out = rp.run_replay(os.path.join(d, "pristine"), cex)
            print(out)
            print("REPLAY:", "violation reproduced" if ok else ("not reproduced" if ok is False else "inconclusive (model/real divergence or build error)"))
            return 1 if ok else (0 if ok is False else 2)
        mir_text, t_mir = dump_mir(d)
        if pid == "C17":
            return run_c17_part(d, mir_text, t_mir, tier, seed, known, t0)
        def add(name, result, **kw):
            obligations.append({"obligation": name, "result": result, **kw})

        if pid in DISC_PIDS:
            disc_obligations(pid, d, mir_text, t_mir, info, add, violations, inconclusive)
        else:
            bm = BrokerModel(mir_text)
            info["functions_encoded"] = [f"job_market::JobBroker::{k} (MIR sha256 {hashlib.sha256(v.encode()).hexdigest()[:12]}, {len(bm.bodies[k].blocks)} basic blocks)" for k, v in sorted(bm.mir_by_name.items())]
            info["mir_dump_s"] = round(t_mir, 1)
            wc = checks.worker_calls(mir_text)
            info["broker_calls_by_checker_code"] = wc
            expected = {"new", "push", "clone", "pop", "split_and_push", "is_closed"}
            if set(wc) - expected:
                raise Unsupported(f"checker code calls JobBroker methods the client automaton does not model: {sorted(set(wc) - expected)}")
            if not {"pop", "split_and_push", "push", "new"} <= set(wc):
                raise Unsupported(f"could not find the worker closures' broker calls in the MIR (found {sorted(wc)})")

            # translator validation against the real JobBroker (real parking_lot) on concrete cases
            cases, err = tv.run_native(os.path.join(d, "pristine"), os.path.join(CACHE_ROOT, "target-mir-native"))
            if cases is None:
                raise Unsupported("translator validation could not run the real code: " + err[-600:])
            n_cases, mism = tv.validate(bm, cases)
            info["translator_validation"] = {"cases_compared_with_real_code": n_cases, "mismatches": mism[:10]}
            log(f"[{pid}] translator validation: {n_cases} concrete cases compared with the real JobBroker, {len(mism)} mismatches")
            if mism:
                raise Unsupported(f"translator validation failed ({len(mism)} mismatches), e.g. {mism[0]}")

            if pid == "C05":
                # (threads, schedule length, spurious wake-ups).  Measured: T=2 K=14 444 s, T=3 K=10 687 s; with spurious
                # wake-ups T=2 K=14 gave `unknown` after 2314 s, so those variants run at the quick bounds.
                cfgs = [(2, 10, False), (3, 8, False)] if tier == "quick" else [(2, 14, False), (2, 10, True), (3, 10, False), (3, 8, True)]
                # the worker closures first: the BMC's client automaton is only meaningful if they conform
                worker_obligations(pid, mir_text, info, add, violations, inconclusive)
                wcl = workerloop.find_worker_closures(mir_text)
                try:
                    forms = {k: workerloop.share_form(k, wcl[k]) for k in ("bfs", "dfs") if k in wcl}
                    if len(forms) != 2 or len(set(forms.values())) != 1:
                        raise Unsupported(f"worker closures of bfs.rs and dfs.rs not found or sharing work differently: {forms}")
                except Unsupported:
                    if not violations:
                        raise
                    forms = None
                    cfgs = []
                    info.setdefault("notes", []).append("BMC skipped: the worker closures violate their obligations and share work under a rule the client automaton does not know")
                share = forms["bfs"] if forms else "guarded"
                info["client_automaton_share_rule"] = {"derived_from_worker_MIR": forms}
                for T, K, spurious in cfgs:
                    for _once in (0,):
                        proto = Protocol(bm, T, spurious=spurious, share=share)
                        tag = f"T={T} K={K}" + (" +spurious wake-ups" if spurious else "")
                        r = checks.bmc(proto, K, 1500000)
                        log(f"[C05] BMC {tag}: {r['verdict']} ({r['time']:.0f}s)")
                        if r["verdict"] == "holds":
                            add(f"BMC {tag}: no deadlock/lost wake-up, no lost or duplicated work, no batch after close, every schedule", "unsat", queries=r["queries"], solver_s=round(r["time"], 1), reachable_witnesses=r["reachable"])
                            for wname, wk in r["reachable"].items():
                                if wk is False and not (wname == "split" and K < 4):
                                    inconclusive.append(f"vacuity: situation `{wname}` not reachable within K={K} for T={T}")
                        elif r["verdict"] == "violation":
                            # a counterexample a turnstile can replay: woken waiters resume first
                            r2 = checks.bmc(proto, K, 1500000, eager=True) if not spurious else r
                            info["replayable_counterexample"] = r2["verdict"] == "violation"
                            if r2["verdict"] == "violation":
                                r = r2
                            cex = {k: r[k] for k in ("obligation", "step", "trace", "states", "P0", "T")}
                            cex["property"] = "C05"
                            add(f"BMC {tag}: {r['obligation']}", "sat", step=r["step"])
                            violations.append(cex)
                            samples.append({"counterexample": cex})
                            break
                        else:
                            inconclusive.append(f"BMC {tag}: solver returned unknown at step {r.get('step')}")
                        ri = checks.inductive(proto, 600000)
                        log(f"[C05] inductive invariant {tag}: {ri['verdict']}")
                        if ri["verdict"] == "holds":
                            add(f"inductive invariant T={T}{' +spurious' if spurious else ''}: open => open_count = #active workers; closed => no batches; last-worker rule never closes while work exists (any schedule length)", "unsat", solver_s=round(ri["time"], 2))
                        elif ri["verdict"] == "violation":
                            add(f"inductive invariant T={T}", "sat", counterexample=ri.get("counterexample"))
                            inconclusive.append(f"the protocol invariant is not inductive for T={T} (pre-state may be unreachable): nothing is claimed beyond the BMC bound; counterexample to induction: {json.dumps(ri.get('counterexample'))[:600]}")
                        else:
                            inconclusive.append(f"inductive check T={T}: unknown")
                        if not spurious and not violations:
                            J = {("quick", 2): 5, ("quick", 3): 4, ("thorough", 2): 6, ("thorough", 3): 5}[(tier, T)]
                            rd, stt = checks.deep_search(proto, J, K, 1500000)
                            log(f"[C05] two-phase search T={T} J={J}: {'violation' if rd else 'none'} ({stt['time']:.0f}s, {stt['candidates']} candidates)")
                            if rd is None and stt["candidates"] == 0:
                                add(f"T={T}: from EVERY state satisfying the inductive invariant, no deadlock and no lost/duplicated work now or within {J} further steps (with the inductive step this covers schedules of any length)", "unsat", solver_s=round(stt["time"], 1), queries=stt["phase1_queries"])
                            elif rd is None:
                                info.setdefault("notes", []).append(f"two-phase search T={T}: {stt['candidates']} invariant-state candidates, none reachable from the initial state within {K} steps (discarded)")
                            else:
                                cex = {k: rd[k] for k in ("obligation", "step", "trace", "states", "P0", "T", "found_by")}
                                cex["property"] = "C05"
                                add(f"two-phase search T={T}: {rd['obligation']}", "sat", step=rd["step"], found_by=rd["found_by"])
                                violations.append(cex)
                                samples.append({"counterexample": cex})
                                break
                    if violations:
                        break
                for o in checks.static_stop_propagation(bm):
                    add("stop propagation, " + o["obligation"], o["result"], **({"witness": o["witness"]} if "witness" in o else {}))
                    if o["result"] == "sat":
                        violations.append({"property": "C05", "obligation": o["obligation"], "static": True, "witness": o.get("witness")})
                    elif o["result"] != "unsat":
                        inconclusive.append(o["obligation"] + ": " + o["result"])
            elif pid == "C12":
                worker_obligations(pid, mir_text, info, add, violations, inconclusive, only_observation=True)
                depth_obligations(pid, mir_text, info, add, violations, inconclusive)
                checker_rs = open(os.path.join(d, "sr", "src", "checker.rs")).read()
                info["spawn"] = {}
                for name in ("bfs", "dfs"):
                    res, sinfo = spawnflow.obligations(name, mir_text, checker_rs)
                    info["spawn"][name] = sinfo
                    info["functions_encoded"].append(f"checker::{name} spawn() ({sinfo['blocks']} basic blocks, loops {sinfo['loops_havocked']} havocked, {sinfo['paths']} paths)")
                    seen_kinds = set()
                    for o in res:
                        add(o["obligation"], o["result"], **({"witness": o["witness"]} if o.get("witness") else {}))
                        kind = o["obligation"].split(": ", 2)[-1]
                        if o["result"] == "sat":
                            if kind not in seen_kinds:
                                seen_kinds.add(kind)
                                violations.append({"property": pid, "obligation": o["obligation"], "static": True, "witness": o.get("witness")})
                        elif o["result"] != "unsat":
                            inconclusive.append(o["obligation"] + ": " + o["result"])
                outs, n_paths = checks.static_timeout(bm)
                info["timeout_thread_paths"] = n_paths
                for o in outs:
                    add("timeout, " + o["obligation"], o["result"], **({"witness": o["witness"]} if "witness" in o else {}))
                    if o["result"] == "sat":
                        violations.append({"property": "C12", "obligation": o["obligation"], "static": True, "witness": o.get("witness")})
                    elif o["result"] != "unsat":
                        inconclusive.append(o["obligation"] + ": " + o["result"])
                for o in checks.static_stop_propagation(bm):
                    add("once closed every worker's next broker call observes it, " + o["obligation"], o["result"])
                    if o["result"] == "sat":
                        violations.append({"property": "C12", "obligation": o["obligation"], "static": True, "witness": o.get("witness")})
                    elif o["result"] != "unsat":
                        inconclusive.append(o["obligation"] + ": " + o["result"])
                if not bm.spawns_timeout_thread():
                    inconclusive.append("JobBroker::new does not spawn the timeout closure any more")
            elif pid == "C06":
                res, sinfo = steploop.obligations(mir_text, open(os.path.join(d, "sr", "src", "actor", "model_state.rs")).read())
                info["actor_step"] = sinfo
                for k, v in sinfo.items():
                    info["functions_encoded"].append(f"actor::model::ActorModel::{k} ({v['blocks']} basic blocks, {v['paths']} paths; MIR sha256 {hashlib.sha256((steploop.find(mir_text, k) or '').encode()).hexdigest()[:12]})")
                seen_kinds = set()
                for o in res:
                    add(o["obligation"], o["result"], **({"witness": o["witness"]} if o.get("witness") else {}))
                    kind = o["obligation"].split(": ", 2)[-1]
                    if o["result"] == "sat":
                        if kind not in seen_kinds:
                            seen_kinds.add(kind)
                            violations.append({"property": pid, "obligation": o["obligation"], "static": True, "witness": o.get("witness")})
                    elif o["result"] != "unsat":
                        inconclusive.append(o["obligation"] + ": " + o["result"])
            elif pid == "C13":
                cbs = blockloop.find_check_blocks(mir_text)
                if "bfs" not in cbs:
                    raise Unsupported("bfs.rs check_block not found in the MIR")
                res, binfo = blockloop.obligations("bfs", cbs["bfs"], fifo=True, witness=True, helpers=blockloop.find_helpers(mir_text, "bfs"))
                binfo["mir_sha256"] = hashlib.sha256(cbs["bfs"].encode()).hexdigest()[:12]
                info["check_block"] = {"bfs": binfo}
                info["functions_encoded"].append(f"checker::bfs::check_block (MIR sha256 {binfo['mir_sha256']}, {binfo['blocks']} basic blocks, {binfo['round_paths']} paths per job, inner loops {binfo['inner_loops_havocked']} abstracted by havoc)")
                seen_kinds = set()
                sres, sinfo = spawnflow.obligations("bfs", mir_text, open(os.path.join(d, "sr", "src", "checker.rs")).read())
                info["spawn"] = {"bfs": sinfo}
                info["functions_encoded"].append(f"checker::bfs spawn() ({sinfo['blocks']} basic blocks, loops {sinfo['loops_havocked']} havocked, {sinfo['paths']} paths)")
                sres = [o for o in sres if "one batch" in o["obligation"] or "thread_count" in o["obligation"]]
                allres = res + initial_depth("bfs", mir_text) + sres + checks.single_thread_broker(bm) + [checks.bfs_order_induction()]
                for o in allres:
                    if "target_max_depth" in o["obligation"] and "skipped only" in o["obligation"]:
                        pass  # D1 belongs to C12 but is harmless here: kept, it is part of what makes depth labels meaningful
                    add(o["obligation"], o["result"], **({"witness": o["witness"]} if o.get("witness") else {}))
                    kind = o["obligation"].split(": ", 2)[-1]
                    if o["result"] == "sat":
                        if kind not in seen_kinds:
                            seen_kinds.add(kind)
                            violations.append({"property": pid, "obligation": o["obligation"], "static": True, "witness": o.get("witness")})
                    elif o["result"] != "unsat":
                        inconclusive.append(o["obligation"] + ": " + o["result"])
            info["z3_feasibility_queries"] = bm.ex.queries
    except Unsupported as e:
        inconclusive.append("encoder: " + str(e))
    except Exception as e:  # noqa: BLE001
        import traceback
        inconclusive.append("internal error: " + traceback.format_exc()[-1500:])

    # replay / known-findings triage
    confirmed = []
    try:
        for v in violations:
            role = v["obligation"]
            e = next((k for k in known if k["property"] == pid and re.search(k["role"], role)), None)
            if e:
                known_hits.append((e, role))
                continue
            rdir = os.path.join(os.environ.get("VERIF_REPLAY_DIR", os.path.join(VERIF, "replays")), pid)
            os.makedirs(rdir, exist_ok=True)
            if v.get("static"):
                path = os.path.join(rdir, "static-" + re.sub(r"\W+", "_", role)[:60] + ".json")
                ok, out = replay_static(d, pid, v)
                json.dump(v, open(path, "w"), indent=1, default=str)
            else:
                path = os.path.join(rdir, f"schedule-{v['obligation']}.json")
                rp.write_replay(path, v)
                ok, out = rp.run_replay(os.path.join(d, "pristine"), v)
            log(f"[{pid}] replay of `{role[:70]}`: {'reproduced' if ok else ('NOT reproduced' if ok is False else 'inconclusive')}")
            if ok:
                confirmed.append((v, path))
            else:
                inconclusive.append(f"counterexample for `{role}` did not reproduce natively ({'ran clean' if ok is False else 'divergence/build problem'}): {out[-400:]}")
    except Exception as e:  # noqa: BLE001 - a failing replay is never a verdict
        import traceback
        inconclusive.append("native replay failed to run: " + traceback.format_exc()[-800:])
    finally:
        shutil.rmtree(d, ignore_errors=True)

    wall = time.time() - t0
    n_ob = len(obligations)
    n_ok = sum(1 for o in obligations if o["result"] == "unsat")
    ev = {
        "property_id": pid, "tier": tier, "seed": seed, "level": "other",
        "coverage": {
            "explanation": EXPLAIN[pid],
            "engine": "mirsym: symbolic execution of rustc's MIR (nightly -Zunpretty=mir, regenerated from /repo's working tree on this run) into z3 Int/Bool terms; schedules, block outcomes and stop reasons are solver variables",
            "bounds": BOUNDS[pid][tier], "outside_claim": OUTSIDE[pid],
            "functions_encoded": info.get("functions_encoded", []),
            "broker_calls_by_checker_code": info.get("broker_calls_by_checker_code", {}),
            "obligations": n_ob, "discharged": n_ok, "queries": n_ob + info.get("z3_feasibility_queries", 0),
            "solver_time_s": round(sum(o.get("solver_s", 0) for o in obligations) + SOLVER_STATS["time"], 1),
            "solver_queries_static_and_pruning": SOLVER_STATS["queries"],
            "evaluations": n_ob, "distinct_nontrivial": n_ok,
            "rule": "one evaluation = one z3 validity/BMC query over all schedules and values within the bound; non-trivial = its premise is satisfiable (reachability witnesses required)",
            "samples": obligations[:60] + samples,
            "checker_cmd": f"bin/check {pid} --tier {tier}",
            "trusted_base": ["rustc MIR", "mirsym parser/executor and its library models (Vec/VecDeque/Range/saturating_sub/min as length arithmetic)", "z3", "shims/log", "shims/parking_lot (sync points)"],
            "exhaustive": False, "inconclusive": inconclusive,
            "known_findings_seen": [{"role": e["role"], "obligation": r} for e, r in known_hits],
            "repo_tree_hash": tree_hash(), "mir_dump_s": info.get("mir_dump_s"),
            "translator_validation": info.get("translator_validation"),
            "traces_validated_against_impl": (info.get("translator_validation") or {}).get("cases_compared_with_real_code", 0),
        },
        "assumptions": ASSUME,
        "wall_s": round(wall, 1), "violations": len(confirmed),
    }
    evdir = os.environ.get("VERIF_EVIDENCE_DIR", os.path.join(VERIF, "evidence"))
    os.makedirs(evdir, exist_ok=True)
    json.dump(ev, open(os.path.join(evdir, f"{pid}.json"), "w"), indent=1, default=str)
    seen = set()
    for e, role in known_hits:
        if e["role"] not in seen:
            seen.add(e["role"])
            print(f"KNOWN-FINDING: property={pid} {e['what']} [{role}]")
    for v, path in confirmed:
        print(f"VIOLATION property={pid} replay={path}")
        print(f"  failed: {v['obligation']}")
    if confirmed:
        return 1
    if inconclusive:
        for x in inconclusive:
            print(f"INCONCLUSIVE property={pid}: {x[:1500]}")
        return 2
    print(f"OK property={pid} tier={tier}: {n_ok}/{n_ob} obligations discharged by z3, {wall:.0f}s")
    return 0


STATIC_TEST = r'''
#[cfg(test)]
mod verif_replay_static {
    use super::*;
    use std::time::{Duration, Instant};
    /// With an UNEXPIRED timeout configured, broker calls must not stall: the timeout thread must
    /// not sit in sleep(1s) while holding the market mutex.
    #[test]
    fn verif_timeout_does_not_stall_workers() {
        let mut b: JobBroker<usize> = JobBroker::new(2, Some(SystemTime::now() + Duration::from_secs(3600)));
        std::thread::sleep(Duration::from_millis(200)); // let the timeout thread start its first iteration
        let t0 = Instant::now();
        b.push((0..4).collect());
        let jobs = b.pop();
        let dt = t0.elapsed();
        assert_eq!(jobs.len(), 4);
        assert!(dt < Duration::from_millis(500), "VIOLATION broker calls stalled for {:?} behind the sleeping timeout thread", dt);
    }
}
'''


STATIC_TEST_EARLY = r'''
#[cfg(test)]
mod verif_replay_static_early {
    use super::*;
    use std::time::{Duration, Instant};
    fn open_at(deadline_ms: u64, probe_ms: u64) -> bool {
        let mut b: JobBroker<usize> = JobBroker::new(2, Some(SystemTime::now() + Duration::from_millis(deadline_ms)));
        let t0 = Instant::now();
        while t0.elapsed() < Duration::from_millis(probe_ms) { std::thread::sleep(Duration::from_millis(10)); }
        b.push((0..3).collect());
        b.pop().len() == 3
    }
    /// An UNEXPIRED timeout must not close the market.
    #[test]
    fn verif_timeout_not_before_deadline() {
        assert!(open_at(900, 150), "VIOLATION market closed 750 ms before a 900 ms deadline");
        assert!(open_at(2600, 2150), "VIOLATION market closed 450 ms before a 2.6 s deadline");
    }
}
'''

STATIC_TEST_UNTOUCHED = r'''
#[cfg(test)]
mod verif_replay_static_untouched {
    use super::*;
    use std::time::Duration;
    /// An UNEXPIRED timeout must leave the market as the workers left it: a market the workers
    /// closed stays closed, queued batches and counters are not altered by the polling thread.
    #[test]
    fn verif_unexpired_timeout_leaves_market_untouched() {
        let b: JobBroker<usize> = JobBroker::new(2, Some(SystemTime::now() + Duration::from_secs(3600)));
        std::thread::sleep(Duration::from_millis(100));
        drop(b.clone()); // a worker leaves: its Drop closes the market
        assert!(!b.market.lock().open);
        std::thread::sleep(Duration::from_millis(1300)); // at least one more poll of the timeout thread
        assert!(!b.market.lock().open, "VIOLATION market altered by an unexpired timeout: closed market is open again");
        let mut c: JobBroker<usize> = JobBroker::new(2, Some(SystemTime::now() + Duration::from_secs(3600)));
        c.push((0..3).collect());
        std::thread::sleep(Duration::from_millis(1300));
        {
            let m = c.market.lock();
            assert!(m.open && m.open_count == 2 && m.thread_count == 2 && m.job_batches.len() == 1, "VIOLATION market altered by an unexpired timeout: open market changed");
        }
        assert!(c.pop().len() == 3, "VIOLATION market altered by an unexpired timeout: queued batch changed");
    }
}
'''

STATIC_TEST_SLEEPER = r'''
#[cfg(test)]
mod verif_replay_static_sleeper {
    use super::*;
    use std::time::Duration;
    /// A worker asleep in pop() when the timeout closes the market must be woken and return.
    #[test]
    fn verif_timeout_wakes_sleeping_worker() {
        let b: JobBroker<usize> = JobBroker::new(2, Some(SystemTime::now() + Duration::from_millis(300)));
        let mut w = b.clone();
        let (tx, rx) = std::sync::mpsc::channel();
        std::thread::spawn(move || {
            let jobs = w.pop(); // no batch, the other worker is active: sleeps
            let _ = tx.send(jobs.len());
            std::mem::forget(w); // the demonstration is about the timeout thread's own Drop, not this worker's
        });
        match rx.recv_timeout(Duration::from_millis(300 + 1000 + 2000)) {
            Ok(n) => assert_eq!(n, 0),
            Err(_) => panic!("VIOLATION sleeper not woken: worker still asleep in pop() 2 s after the timeout closed the market"),
        }
        std::mem::forget(b);
    }
}
'''

WORKER_TEST = r'''
use stateright::{Checker, Model, Property};
use std::time::{Duration, Instant};

/// WIDTH independent chains: the frontier keeps WIDTH states for ever (unbounded model).  With
/// `comb`, every chain state also has a dead-end successor (listed first), so that a depth-first
/// worker's stack holds the chain head on top of a growing pile of dead ends.
#[derive(Clone, Copy)]
struct Wide { width: u64, comb: bool }
impl Model for Wide {
    type State = (bool, u64);
    type Action = bool;
    fn init_states(&self) -> Vec<(bool, u64)> { (0..self.width).map(|i| (false, i)).collect() }
    fn actions(&self, s: &(bool, u64), a: &mut Vec<bool>) {
        if !s.0 {
            if self.comb { a.push(true); }
            a.push(false);
        }
    }
    fn next_state(&self, s: &(bool, u64), dead: bool) -> Option<(bool, u64)> {
        if dead { Some((true, s.1)) } else { Some((false, s.1 + self.width)) }
    }
    fn properties(&self) -> Vec<Property<Self>> { vec![Property::always("true", |_, _| true)] }
}

fn stops(threads: usize, width: u64, comb: bool, dfs: bool) -> bool {
    let (tx, rx) = std::sync::mpsc::channel();
    std::thread::spawn(move || {
        let t0 = Instant::now();
        let b = Wide { width, comb }.checker().threads(threads).timeout(Duration::from_millis(300));
        let n = if dfs { b.spawn_dfs().join().state_count() } else { b.spawn_bfs().join().state_count() };
        let _ = tx.send((t0.elapsed(), n));
    });
    match rx.recv_timeout(Duration::from_millis(300 + 1000 + 4000)) {
        Ok((d, n)) => { println!("threads={} frontier={} comb={} dfs={}: stopped after {:?} with {} states", threads, width, comb, dfs, d, n); true }
        Err(_) => false,
    }
}

#[test]
fn verif_busy_worker_observes_timeout() {
    // the solver's witness first, then the same situation with every worker busy on a narrow queue
    let dfs = @DFS@;
    let mut configs: Vec<(usize, u64)> = vec![(@THREADS@, @WIDTH@), (1, 1), (2, 1), (2, 2), (3, 3), (1, 3)];
    configs.dedup();
    for comb in [false, true] {
        for &(threads, width) in &configs {
            assert!(stops(threads, width, comb, dfs), "VIOLATION busy worker never observes the timeout: threads={} frontier={} comb={} dfs={} still running 4 s after a 300 ms timeout (+1 s poll)", threads, width, comb, dfs);
        }
    }
}
'''

WORKER_EXIT_TEST = r'''
use stateright::{Checker, Model, Property};

/// 3000 states: a 3-wide ladder, finite.
struct Ladder;
impl Model for Ladder {
    type State = u32;
    type Action = u32;
    fn init_states(&self) -> Vec<u32> { vec![0, 1, 2] }
    fn actions(&self, _s: &u32, a: &mut Vec<u32>) { a.push(3); a.push(4); }
    fn next_state(&self, s: &u32, a: u32) -> Option<u32> { if *s + a < 3000 { Some(*s + a) } else { None } }
    fn properties(&self) -> Vec<Property<Self>> {
        vec![Property::always("small", |_, s| *s < 3000), Property::sometimes("seven", |_, s| *s == 7)]
    }
}

/// Root -> 3200 slow C states -> one D state each (depths 1, 2, 3).
struct Fan;
impl Model for Fan {
    type State = (u8, u32);
    type Action = u32;
    fn init_states(&self) -> Vec<(u8, u32)> { vec![(0, 0)] }
    fn actions(&self, s: &(u8, u32), a: &mut Vec<u32>) {
        match s.0 { 0 => a.extend(0..3200), 1 => a.push(0), _ => {} }
    }
    fn next_state(&self, s: &(u8, u32), a: u32) -> Option<(u8, u32)> {
        match s.0 {
            0 => Some((1, a)),
            1 => { let t = std::time::Instant::now(); while t.elapsed() < std::time::Duration::from_micros(50) {} Some((2, s.1)) }
            _ => None,
        }
    }
    fn properties(&self) -> Vec<Property<Self>> { vec![Property::always("true", |_, _| true)] }
}

#[test]
fn verif_worker_leaves_only_for_a_stop_reason() {
    // a depth limit is not a stop reason for a worker: states nearer than the limit that another
    // worker still holds must be evaluated
    let want = Fan.checker().target_max_depth(3).spawn_bfs().join().unique_state_count();
    for round in 0..3 {
        for threads in [2usize, 3] {
            let got = Fan.checker().threads(threads).target_max_depth(3).spawn_bfs().join().unique_state_count();
            assert!(got == want, "VIOLATION worker left without a stop reason: BFS threads={} target_max_depth(3) round {} reached {} of {} states", threads, round, got, want);
            let got = Fan.checker().threads(threads).target_max_depth(3).spawn_dfs().join().unique_state_count();
            assert!(got == want, "VIOLATION worker left without a stop reason: DFS threads={} target_max_depth(3) round {} reached {} of {} states", threads, round, got, want);
        }
    }
    let total = Ladder.checker().spawn_bfs().join().unique_state_count();
    for threads in [1usize, 2, 3] {
        for dfs in [false, true] {
            // no target, default finish condition (all properties): "small" is never discovered, so
            // nothing allows an early stop: the whole space must be visited
            let b = Ladder.checker().threads(threads);
            let c = if dfs { b.spawn_dfs().join().unique_state_count() } else { b.spawn_bfs().join().unique_state_count() };
            assert!(c == total, "VIOLATION worker left without a stop reason: threads={} dfs={} visited {} of {} states", threads, dfs, c, total);
            // with a target the check must not stop before the target is reached
            let b = Ladder.checker().threads(threads).target_state_count(1500);
            let n = if dfs { b.spawn_dfs().join().state_count() } else { b.spawn_bfs().join().state_count() };
            assert!(n >= 1500, "VIOLATION worker left without a stop reason: threads={} dfs={} generated {} states, target 1500", threads, dfs, n);
        }
    }
}
'''

STEP_TEST = r'''
use stateright::actor::{Actor, ActorModel, ActorModelAction, ActorModelState, Envelope, Id, Network, Out};
use stateright::Model;
use std::borrow::Cow;
use std::sync::atomic::{AtomicUsize, Ordering};

static CALLS: AtomicUsize = AtomicUsize::new(0);

/// Actor 0 reacts; actor 1 is passive.  History = list of hook calls.
#[derive(Clone)]
struct P { reacts: bool }
impl Actor for P {
    type Msg = u8;
    type State = u32;
    type Timer = u8;
    type Random = u8;
    fn on_start(&self, _id: Id, o: &mut Out<Self>) -> u32 {
        if self.reacts { o.set_timer(1, std::time::Duration::from_secs(1)..std::time::Duration::from_secs(1)); o.set_timer(2, std::time::Duration::from_secs(1)..std::time::Duration::from_secs(1)); o.choose_random("k", vec![5, 6]); o.choose_random("j", vec![7]); }
        else { o.set_timer(9, std::time::Duration::from_secs(1)..std::time::Duration::from_secs(1)); }
        0
    }
    fn on_msg(&self, _id: Id, state: &mut Cow<u32>, src: Id, msg: u8, o: &mut Out<Self>) {
        CALLS.fetch_add(1, Ordering::SeqCst);
        if !self.reacts || msg == 0 { return; }
        if msg == 9 { o.send(src, 90); return; } // read-only request: replies without touching its state
        *state.to_mut() += msg as u32;
        o.send(src, msg + 1);
        o.send(Id::from(1usize), msg + 2);
        o.cancel_timer(2);
        o.set_timer(3, std::time::Duration::from_secs(1)..std::time::Duration::from_secs(1));
    }
    fn on_timeout(&self, _id: Id, state: &mut Cow<u32>, timer: &u8, o: &mut Out<Self>) {
        CALLS.fetch_add(1, Ordering::SeqCst);
        *state.to_mut() += 100 + *timer as u32;
        o.send(Id::from(1usize), 50);
        o.set_timer(*timer, std::time::Duration::from_secs(1)..std::time::Duration::from_secs(1)); // re-armed: must survive the consumption of the fired one
    }
    fn on_random(&self, _id: Id, state: &mut Cow<u32>, random: &u8, o: &mut Out<Self>) {
        CALLS.fetch_add(1, Ordering::SeqCst);
        *state.to_mut() += 1000 + *random as u32;
        if *random != 5 { o.send(Id::from(1usize), 60); }
    }
}

type H = Vec<String>;
fn model(net: Network<u8>) -> ActorModel<P, (), H> {
    ActorModel::new((), Vec::new())
        .actor(P { reacts: true })
        .actor(P { reacts: false })
        .init_network(net)
        .max_crashes(1)
        .record_msg_in(|_, h: &H, e: Envelope<&u8>| { let mut h = h.clone(); h.push(format!("in {:?}->{:?} {}", e.src, e.dst, e.msg)); Some(h) })
        .record_msg_out(|_, h: &H, e: Envelope<&u8>| { let mut h = h.clone(); h.push(format!("out {:?}->{:?} {}", e.src, e.dst, e.msg)); Some(h) })
}
fn envs(s: &ActorModelState<P, H>) -> Vec<(usize, usize, u8)> {
    let mut v: Vec<_> = s.network.iter_deliverable().map(|e| (usize::from(e.src), usize::from(e.dst), *e.msg)).collect();
    v.sort();
    v
}
fn bad(what: &str) -> ! { panic!("VIOLATION actor step: {}", what) }

#[test]
fn verif_actor_step_is_one_atomic_handler_step() {
    let a0 = Id::from(0usize);
    let a1 = Id::from(1usize);
    for ordered in [false, true] {
        let init = vec![Envelope { src: a1, dst: a0, msg: 3u8 }, Envelope { src: a1, dst: a0, msg: 0u8 }];
        let m = model(if ordered { Network::new_ordered(init) } else { Network::new_unordered_nonduplicating(init) });
        let s0 = m.init_states().pop().unwrap();
        let before = format!("{:?}", s0);
        // ---- start-up: on_start once per actor, its commands applied for that actor
        {
            let t0: Vec<u8> = { let mut v: Vec<u8> = s0.timers_set[0].iter().copied().collect(); v.sort(); v };
            if t0 != vec![1, 2] || s0.timers_set[1].iter().copied().collect::<Vec<u8>>() != vec![9] || !s0.random_choices[0].map.contains_key("k") || !s0.random_choices[0].map.contains_key("j") || !s0.random_choices[1].map.is_empty()
                || s0.actor_states.len() != 2 || s0.network.len() != 2 || !s0.history.is_empty() { bad("start-up: each actor's on_start commands are applied to that actor, nothing else changes"); }
        }
        // ---- Deliver 3: one handler call; state replaced; sends in order; timers as commanded; hooks in/out/out
        CALLS.store(0, Ordering::SeqCst);
        let s1 = m.next_state(&s0, ActorModelAction::Deliver { src: a1, dst: a0, msg: 3 }).unwrap_or_else(|| bad("a delivery that changes things yields a transition"));
        if CALLS.load(Ordering::SeqCst) != 1 { bad("exactly one handler invocation per transition"); }
        if format!("{:?}", s0) != before { bad("the last state is not modified"); }
        if *s1.actor_states[0] != 3 || *s1.actor_states[1] != 0 { bad("the actor's new local state replaces the old one, others unchanged"); }
        let mut want = vec![(0, 1, 4u8), (0, 1, 5), (1, 0, 0)];
        want.sort();
        if ordered { want = vec![(0, 1, 4u8), (1, 0, 0)]; }
        if envs(&s1) != want || s1.network.len() != 3 { bad(&format!("the delivered envelope is consumed and the sends enter the network (deliverable {:?}, len {})", envs(&s1), s1.network.len())); }
        let t: Vec<u8> = { let mut v: Vec<u8> = s1.timers_set[0].iter().copied().collect(); v.sort(); v };
        if t != vec![1, 3] { bad("timers are set and cancelled as commanded"); }
        if s1.history != vec!["in Id(1)->Id(0) 3".to_string(), "out Id(0)->Id(1) 4".to_string(), "out Id(0)->Id(1) 5".to_string()] { bad("history hooks see the received message first, then each sent message in order"); }
        if s1.crashed != s0.crashed || s1.timers_set[1].iter().copied().collect::<Vec<u8>>() != vec![9] { bad("nothing else in the system state changes"); }
        // ---- Deliver 0: a delivery that changes nothing: no transition on unordered networks, a transition (message consumed) on ordered ones
        let r = m.next_state(&s0, ActorModelAction::Deliver { src: a1, dst: a0, msg: 0 });
        if !ordered && r.is_some() { bad("a delivery that changes nothing yields no transition on unordered networks"); }
        if ordered { if let Some(r) = r { if r.history != vec!["in Id(1)->Id(0) 0".to_string()] || *r.actor_states[0] != 0 { bad("a no-op delivery on an ordered network only consumes the message"); } } else { bad("a no-op delivery on an ordered network still consumes the message"); } }
        // ---- Deliver 9: state untouched but a reply is sent: still a transition, and the hooks see in, then out
        {
            let m9 = model(if ordered { Network::new_ordered(vec![Envelope { src: a1, dst: a0, msg: 9u8 }]) } else { Network::new_unordered_nonduplicating(vec![Envelope { src: a1, dst: a0, msg: 9u8 }]) });
            let s = m9.init_states().pop().unwrap();
            let r = m9.next_state(&s, ActorModelAction::Deliver { src: a1, dst: a0, msg: 9 }).unwrap_or_else(|| bad("a delivery that sends something yields a transition"));
            if r.history != vec!["in Id(1)->Id(0) 9".to_string(), "out Id(0)->Id(1) 90".to_string()] || *r.actor_states[0] != 0 { bad("history hooks see the received message first even when the actor's state is untouched"); }
        }
        // ---- Timeout(1): fired timer consumed, other timer kept, one handler call, send recorded
        CALLS.store(0, Ordering::SeqCst);
        let s2 = m.next_state(&s0, ActorModelAction::Timeout(a0, 1)).unwrap_or_else(|| bad("timeout yields a transition"));
        if CALLS.load(Ordering::SeqCst) != 1 { bad("exactly one handler invocation per transition (timeout)"); }
        let t: Vec<u8> = { let mut v: Vec<u8> = s2.timers_set[0].iter().copied().collect(); v.sort(); v };
        if t != vec![1, 2] || *s2.actor_states[0] != 101 { bad("the fired timer is consumed BEFORE the commands are applied (a handler that re-arms it keeps it set) and the new state installed"); }
        if s2.history != vec!["out Id(0)->Id(1) 50".to_string()] { bad("a timeout records only its sends"); }
        // ---- SelectRandom: selected choice consumed, the other key kept
        CALLS.store(0, Ordering::SeqCst);
        let s3 = m.next_state(&s0, ActorModelAction::SelectRandom { actor: a0, key: "k".to_string(), random: 6 }).unwrap_or_else(|| bad("random selection yields a transition"));
        if CALLS.load(Ordering::SeqCst) != 1 || *s3.actor_states[0] != 1006 { bad("exactly one handler invocation per transition (random), new state installed"); }
        if s3.random_choices[0].map.contains_key("k") || !s3.random_choices[0].map.contains_key("j") { bad("the selected choice is consumed, other choices kept"); }
        CALLS.store(0, Ordering::SeqCst);
        let s3b = m.next_state(&s0, ActorModelAction::SelectRandom { actor: a0, key: "k".to_string(), random: 5 }).unwrap_or_else(|| bad("random selection yields a transition"));
        if CALLS.load(Ordering::SeqCst) != 1 || *s3b.actor_states[0] != 1005 || s3b.network.len() != s0.network.len() { bad("exactly one handler invocation per transition (random without commands)"); }
        // ---- sends to a crashed actor still enter the network (they stay there undelivered)
        {
            let sc = m.next_state(&s0, ActorModelAction::Crash(a1)).unwrap_or_else(|| bad("crash yields a transition"));
            let r = m.next_state(&sc, ActorModelAction::Deliver { src: a1, dst: a0, msg: 3 }).unwrap_or_else(|| bad("delivery after a crash of another actor"));
            if r.network.len() != 3 || r.history.len() != 3 { bad("every Send command is applied: messages addressed to a crashed actor enter the network and the history"); }
        }
        // ---- Crash / Drop: no handler
        CALLS.store(0, Ordering::SeqCst);
        let s4 = m.next_state(&s0, ActorModelAction::Crash(a0)).unwrap_or_else(|| bad("crash yields a transition"));
        if CALLS.load(Ordering::SeqCst) != 0 || !s4.crashed[0] || s4.timers_set[0].iter().count() != 0 || !s4.random_choices[0].map.is_empty() { bad("a crash invokes no handler, sets the flag and discards timers and choices"); }
        if envs(&s4) != envs(&s0) || s4.history != s0.history || *s4.actor_states[0] != 0 { bad("a crash changes nothing else"); }
    }
}
'''

RUNTIME_TEST = r'''
use stateright::actor::{spawn, Actor, Id, Out};
use std::borrow::Cow;
use std::net::{Ipv4Addr, SocketAddrV4, UdpSocket};
use std::sync::Mutex;
use std::time::{Duration, Instant};

static LOG: Mutex<Vec<String>> = Mutex::new(Vec::new());
fn log(s: String) { LOG.lock().unwrap().push(s); }

struct Probe { t0: Instant }
impl Actor for Probe {
    type Msg = String;
    type State = u32;
    type Timer = u8;
    type Random = u8;
    fn on_start(&self, id: Id, o: &mut Out<Self>) -> u32 {
        log(format!("start id={:?}", id));
        o.set_timer(7, Duration::from_millis(400)..Duration::from_millis(400));
        for i in 0..200u8 { o.choose_random(format!("k{}", i), vec![i]); } // each fires once, after a random delay of 0..10 s
        100
    }
    fn on_random(&self, id: Id, state: &mut Cow<u32>, random: &u8, _o: &mut Out<Self>) {
        log(format!("random id={:?} state={} random={}", id, **state, random));
    }
    fn on_msg(&self, id: Id, state: &mut Cow<u32>, src: Id, msg: String, _o: &mut Out<Self>) {
        log(format!("msg id={:?} state={} src={:?} msg={}", id, **state, src, msg));
        *state.to_mut() += 1;
    }
    fn on_timeout(&self, id: Id, state: &mut Cow<u32>, timer: &u8, _o: &mut Out<Self>) {
        log(format!("timeout id={:?} state={} timer={} after_ms={}", id, **state, timer, self.t0.elapsed().as_millis()));
        *state.to_mut() += 10;
    }
}

#[test]
fn verif_udp_runtime_contract() {
    let port = 41000 + (std::process::id() % 20000) as u16;
    let addr = SocketAddrV4::new(Ipv4Addr::LOCALHOST, port);
    let id = Id::from(addr);
    let t0 = Instant::now();
    std::thread::spawn(move || {
        let _ = spawn(|m: &String| serde_json::to_vec(m), |b: &[u8]| serde_json::from_slice::<String>(b), vec![(id, Probe { t0 })]);
    });
    std::thread::sleep(Duration::from_millis(150));
    let client = UdpSocket::bind(SocketAddrV4::new(Ipv4Addr::LOCALHOST, 0)).unwrap();
    let client_addr = match client.local_addr().unwrap() { std::net::SocketAddr::V4(a) => a, _ => unreachable!() };
    client.send_to(&serde_json::to_vec(&"hello".to_string()).unwrap(), addr).unwrap();
    client.send_to(b"\\xff\\xfe not json", addr).unwrap();
    client.send_to(&serde_json::to_vec(&"again".to_string()).unwrap(), addr).unwrap();
    std::thread::sleep(Duration::from_millis(900));
    let log = LOG.lock().unwrap().clone();
    println!("{:#?}", log);
    let bad = |what: &str| -> ! { panic!("VIOLATION udp runtime: {} -- log: {:?}", what, log) };
    if log.first().map(|l| l.starts_with("start ")) != Some(true) || log.iter().filter(|l| l.starts_with("start ")).count() != 1 { bad("on_start must run exactly once, first"); }
    if !log[0].contains(&format!("id={:?}", id)) { bad("on_start gets the actor's id"); }
    let msgs: Vec<&String> = log.iter().filter(|l| l.starts_with("msg ")).collect();
    if msgs.len() != 2 { bad("exactly the two well-formed datagrams reach on_msg"); }
    let want_src = format!("src={:?}", Id::from(client_addr));
    if !(msgs[0].contains("msg=hello") && msgs[1].contains("msg=again")) { bad("on_msg carries the deserialized messages in order"); }
    if !msgs.iter().all(|m| m.contains(&want_src) && m.contains(&format!("id={:?}", id))) { bad("on_msg carries the Id derived from the sender's address and the actor's own id"); }
    if !(msgs[0].contains("state=100") && msgs[1].contains("state=101")) { bad("each handler receives the state left by the previous one"); }
    let mut seen_random = std::collections::HashSet::new();
    for l in log.iter().filter(|l| l.starts_with("random ")) {
        if !seen_random.insert(l.clone()) { bad("a random choice made once is delivered at most once (it is consumed when it is delivered)"); }
    }
    let tos: Vec<&String> = log.iter().filter(|l| l.starts_with("timeout ")).collect();
    if tos.len() != 1 { bad("the timer set in on_start fires exactly once (it is consumed when it fires)"); }
    let after: u128 = tos[0].rsplit("after_ms=").next().unwrap().parse().unwrap();
    if after < 400 { bad("a timer fires no earlier than the lower bound of its range"); }
    if !tos[0].contains("timer=7") || !tos[0].contains("state=102") { bad("on_timeout gets the timer that was set and the current state"); }
}
'''

BFS_ORDER_TEST = r'''
use stateright::{Checker, Model, Property, StateRecorder};
use std::collections::{HashMap, VecDeque};

/// A graph with shortcuts and several witnesses at different distances.
struct G;
impl G {
    fn succ(s: u32) -> Vec<u32> {
        let mut v = vec![];
        if s + 1 < 60 { v.push(s + 1); }          // long way
        if s % 7 == 0 && s + 5 < 60 { v.push(s + 5); }   // shortcut, listed later
        if s % 4 == 1 && s >= 3 { v.push(s - 3); }       // back edge
        v
    }
}
impl Model for G {
    type State = u32;
    type Action = u32;
    fn init_states(&self) -> Vec<u32> { vec![0, 30] }
    fn actions(&self, s: &u32, a: &mut Vec<u32>) { a.extend(G::succ(*s)); }
    fn next_state(&self, _s: &u32, a: u32) -> Option<u32> { Some(a) }
    fn properties(&self) -> Vec<Property<Self>> {
        vec![Property::sometimes("hit", |_, s| *s == 19 || *s == 12 || *s == 44),
             Property::always("low", |_, s| *s != 23 && *s != 52 && *s != 17)]
    }
}

/// More states than one 1500-job block: 0 -> 1..=1700; 1 -> 10001 -> 99999; 1500 -> 99999.
struct Big;
impl Big {
    fn succ(s: u32) -> Vec<u32> {
        match s { 0 => (1..=1700).collect(), 1 => vec![10001], 10001 => vec![99999], 1500 => vec![99999], _ => vec![] }
    }
}
impl Model for Big {
    type State = u32;
    type Action = u32;
    fn init_states(&self) -> Vec<u32> { vec![0] }
    fn actions(&self, s: &u32, a: &mut Vec<u32>) { a.extend(Big::succ(*s)); }
    fn next_state(&self, _s: &u32, a: u32) -> Option<u32> { Some(a) }
    fn properties(&self) -> Vec<Property<Self>> { vec![Property::sometimes("goal", |_, s| *s == 99999)] }
}

#[test]
fn verif_bfs_order_across_block_boundaries() {
    let dist = |s: u32| -> usize { match s { 0 => 0, 1..=1700 => 1, 10001 => 2, 99999 => 2, _ => unreachable!() } };
    let (rec, evaluated) = StateRecorder::new_with_accessor();
    let (tx, rx) = std::sync::mpsc::channel();
    std::thread::spawn(move || { let _ = tx.send(Big.checker().threads(1).visitor(rec).spawn_bfs().join()); });
    let checker = match rx.recv_timeout(std::time::Duration::from_secs(30)) {
        Ok(c) => c,
        Err(_) => panic!("VIOLATION BFS order: the check of a 1703-state graph did not finish within 30 s"),
    };
    let mut last = 0;
    for s in evaluated() {
        let d = dist(s);
        assert!(d >= last, "VIOLATION BFS order: state {} at distance {} evaluated after a state at distance {} (1703-state graph)", s, d, last);
        last = d;
    }
    let len = checker.discovery("goal").expect("reachable").into_states().len() - 1;
    assert!(len == 2, "VIOLATION BFS order: witness for goal has {} transitions, the shortest has 2", len);
}

#[test]
fn verif_single_threaded_bfs_order_and_shortest_witnesses() {
    // reference distances
    let mut dist: HashMap<u32, usize> = HashMap::new();
    let mut q = VecDeque::new();
    for s in [0u32, 30] { dist.insert(s, 0); q.push_back(s); }
    while let Some(s) = q.pop_front() {
        for t in G::succ(s) { if !dist.contains_key(&t) { dist.insert(t, dist[&s] + 1); q.push_back(t); } }
    }
    let (rec, evaluated) = StateRecorder::new_with_accessor();
    let (tx, rx) = std::sync::mpsc::channel();
    std::thread::spawn(move || { let _ = tx.send(G.checker().threads(1).visitor(rec).spawn_bfs().join()); });
    let checker = match rx.recv_timeout(std::time::Duration::from_secs(20)) {
        Ok(c) => c,
        Err(_) => panic!("VIOLATION BFS order: the check of a 60-state graph did not finish within 20 s (path reconstruction does not terminate?)"),
    };
    let ev = evaluated();
    let mut last = 0;
    for s in &ev {
        let d = dist[s];
        assert!(d >= last, "VIOLATION BFS order: state {} at distance {} evaluated after a state at distance {}", s, d, last);
        last = d;
    }
    for (name, targets) in [("hit", vec![19u32, 12, 44]), ("low", vec![23u32, 52, 17])] {
        let best = targets.iter().filter_map(|t| dist.get(t)).min().copied().unwrap();
        let path = checker.discovery(name).expect("a witness is reachable");
        let len = path.into_states().len() - 1;
        assert!(len == best, "VIOLATION BFS order: witness for {:?} has {} transitions, the shortest has {}", name, len, best);
    }
}
'''

DEPTH_TEST = r'''
use stateright::{Checker, Model, Property, StateRecorder};

/// Complete binary tree with 8 levels; a state is (depth, index), the root has depth 1.
struct Tree;
impl Model for Tree {
    type State = (u32, u32);
    type Action = u32;
    fn init_states(&self) -> Vec<(u32, u32)> { vec![(1, 0)] }
    fn actions(&self, s: &(u32, u32), a: &mut Vec<u32>) { if s.0 < 8 { a.push(0); a.push(1); } }
    fn next_state(&self, s: &(u32, u32), a: u32) -> Option<(u32, u32)> { Some((s.0 + 1, 2 * s.1 + a)) }
    fn properties(&self) -> Vec<Property<Self>> { vec![Property::always("true", |_, _| true)] }
}

/// LANES independent chains: every level is LANES states wide (wider than one 1500-job block).
struct Lanes(u32);
impl Model for Lanes {
    type State = (u32, u32);
    type Action = ();
    fn init_states(&self) -> Vec<(u32, u32)> { (0..self.0).map(|i| (1, i)).collect() }
    fn actions(&self, s: &(u32, u32), a: &mut Vec<()>) { if s.0 < 6 { a.push(()); } }
    fn next_state(&self, s: &(u32, u32), _a: ()) -> Option<(u32, u32)> { Some((s.0 + 1, s.1)) }
    fn properties(&self) -> Vec<Property<Self>> { vec![Property::always("true", |_, _| true)] }
}

#[test]
fn verif_depth_limit_is_honoured() {
    for k in 1usize..=4 {
        for dfs in [false, true] {
            let (rec, evaluated) = StateRecorder::new_with_accessor();
            let b = Lanes(4000).checker().threads(1).target_max_depth(k).visitor(rec);
            if dfs { b.spawn_dfs().join(); } else { b.spawn_bfs().join(); }
            let ev = evaluated();
            let deepest = ev.iter().map(|s| s.0).max().unwrap_or(0);
            assert!(deepest as usize <= k, "VIOLATION depth limit: 4000 lanes, target_max_depth({}) dfs={} evaluated a state at depth {}", k, dfs, deepest);
            let nearer = ev.iter().filter(|s| (s.0 as usize) < k).count();
            assert!(nearer == 4000 * (k - 1), "VIOLATION depth limit: 4000 lanes, target_max_depth({}) dfs={} evaluated {} of the {} states nearer than the limit", k, dfs, nearer, 4000 * (k - 1));
        }
    }
    for k in 1usize..=6 {
        for dfs in [false, true] {
            let (rec, evaluated) = StateRecorder::new_with_accessor();
            let b = Tree.checker().threads(1).target_max_depth(k).visitor(rec);
            if dfs { b.spawn_dfs().join(); } else { b.spawn_bfs().join(); }
            let ev = evaluated();
            let deepest = ev.iter().map(|s| s.0).max().unwrap_or(0);
            assert!(deepest as usize <= k, "VIOLATION depth limit: target_max_depth({}) dfs={} evaluated a state at depth {}", k, dfs, deepest);
            let nearer = ev.iter().filter(|s| (s.0 as usize) < k).count();
            assert!(nearer == (1usize << (k - 1)) - 1, "VIOLATION depth limit: target_max_depth({}) dfs={} evaluated {} of the {} states nearer than the limit", k, dfs, nearer, (1usize << (k - 1)) - 1);
        }
    }
}
'''

STATIC_TEST_LATE = r'''
#[cfg(test)]
mod verif_replay_static_late {
    use super::*;
    use std::time::Duration;
    /// After expiry the market is closed within one polling period plus one critical section.
    #[test]
    fn verif_timeout_closes_after_deadline() {
        let mut b: JobBroker<usize> = JobBroker::new(2, Some(SystemTime::now() + Duration::from_millis(300)));
        std::thread::sleep(Duration::from_millis(300 + 1000 + 400));
        b.push((0..3).collect());
        assert!(b.pop().is_empty(), "VIOLATION market still open 1.4 s after the deadline");
    }
}
'''


def _native_test(d, code, filt, marker):
    sr = os.path.join(d, "pristine")
    p = os.path.join(sr, "src", "job_market.rs")
    orig = open(p).read()
    try:
        open(p, "w").write(orig + code)
        env = dict(os.environ)
        env["CARGO_NET_OFFLINE"] = "true"
        env["CARGO_TARGET_DIR"] = os.path.join(CACHE_ROOT, "target-mir-native")
        r = subprocess.run(["cargo", "test", "--lib", "--offline", filt], cwd=sr, env=env, stdout=subprocess.PIPE, stderr=subprocess.STDOUT, text=True, timeout=900)
        if marker in r.stdout:
            return True, r.stdout[-1500:]
        if re.search(r"test result: ok\. 1 passed", r.stdout):
            return False, r.stdout[-800:]
        return None, r.stdout[-1500:]
    finally:
        open(p, "w").write(orig)


_WORKER_REPLAYS = {}


def _integration_test(d, v, code, fname, marker):
    sr = os.path.join(d, "pristine")
    os.makedirs(os.path.join(sr, "tests"), exist_ok=True)
    tp = os.path.join(sr, "tests", fname + ".rs")
    v["replay_test"] = code
    if code in _WORKER_REPLAYS:
        return _WORKER_REPLAYS[code]
    open(tp, "w").write(code)
    try:
        env = dict(os.environ)
        env["CARGO_NET_OFFLINE"] = "true"
        env["CARGO_TARGET_DIR"] = os.path.join(CACHE_ROOT, "target-mir-native")
        try:
            r = subprocess.run(["cargo", "test", "--offline", "--test", fname], cwd=sr, env=env, stdout=subprocess.PIPE, stderr=subprocess.STDOUT, text=True, timeout=600)
        except subprocess.TimeoutExpired:
            return None, "native demonstration did not finish within 600 s"
        if marker in r.stdout:
            _WORKER_REPLAYS[code] = (True, r.stdout[-1500:])
        elif re.search(r"test result: ok\. [1-9]\d* passed; 0 failed", r.stdout):
            _WORKER_REPLAYS[code] = (False, r.stdout[-800:])
        else:
            return None, r.stdout[-1500:]
        return _WORKER_REPLAYS[code]
    finally:
        os.remove(tp)


def replay_static(d, pid, v):
    """Static obligations with a native demonstration."""
    if pid in DISC_PIDS:
        ok, out = _integration_test(d, v, open(os.path.join(os.path.dirname(os.path.abspath(__file__)), "oracle_test.rs")).read(), "verif_checker_oracle", "VIOLATION checker-oracle")
        if ok is None and re.search(r"test result: FAILED\. \d+ passed; [1-9]\d* failed", out):
            # the demonstration was built and ran, and a checker panicked on a valid model before the oracle could
            # print its marker (e.g. path reconstruction on a visited set that misses a state): the code fails natively
            return True, out
        return ok, out
    if pid == "C12" and "not closed by the timeout thread before the closing time" in v["obligation"]:
        return _native_test(d, STATIC_TEST_EARLY, "verif_timeout_not_before_deadline", "VIOLATION market closed")
    if pid == "C12" and ("market closed once the closing time has passed" in v["obligation"] or "never goes back to sleep once the closing time has passed" in v["obligation"]):
        return _native_test(d, STATIC_TEST_LATE, "verif_timeout_closes_after_deadline", "VIOLATION market still open")
    if pid == "C12" and "an unexpired timeout leaves the market untouched" in v["obligation"]:
        return _native_test(d, STATIC_TEST_UNTOUCHED, "verif_unexpired_timeout_leaves_market_untouched", "VIOLATION market altered")
    if "on a closed market the round" in v["obligation"] or "observes a closed market" in v["obligation"]:
        w = v.get("witness") or {}
        threads, width = int(w.get("threads", 1)), max([1] + [int(x) for x in w.get("queue_after_block", [])])
        if not (1 <= threads <= 8 and 1 <= width <= 64):
            return None, f"witness outside the replayable range: {w}"
        code = WORKER_TEST.replace("@THREADS@", str(threads)).replace("@WIDTH@", str(width)).replace("@DFS@", "true" if w.get("checker") == "dfs" else "false")
        sr = os.path.join(d, "pristine")
        os.makedirs(os.path.join(sr, "tests"), exist_ok=True)
        tp = os.path.join(sr, "tests", "verif_worker_timeout.rs")
        v["replay_test"] = code
        if code in _WORKER_REPLAYS:
            return _WORKER_REPLAYS[code]
        open(tp, "w").write(code)
        try:
            env = dict(os.environ)
            env["CARGO_NET_OFFLINE"] = "true"
            env["CARGO_TARGET_DIR"] = os.path.join(CACHE_ROOT, "target-mir-native")
            r = subprocess.run(["cargo", "test", "--offline", "--test", "verif_worker_timeout"], cwd=sr, env=env, stdout=subprocess.PIPE, stderr=subprocess.STDOUT, text=True, timeout=1500)
            if "VIOLATION busy worker never observes" in r.stdout:
                _WORKER_REPLAYS[code] = (True, r.stdout[-1500:])
            elif re.search(r"test result: ok\. 1 passed", r.stdout):
                _WORKER_REPLAYS[code] = (False, r.stdout[-800:])
            else:
                return None, r.stdout[-1500:]
            return _WORKER_REPLAYS[code]
        finally:
            os.remove(tp)
    if pid == "C06":
        return _integration_test(d, v, STEP_TEST, "verif_actor_step", "VIOLATION actor step")
    if pid == "C17":
        return _integration_test(d, v, RUNTIME_TEST, "verif_udp_runtime", "VIOLATION udp runtime")
    if " spawn: " in v["obligation"] and pid == "C12":
        if "target_max_depth" in v["obligation"]:
            return _integration_test(d, v, DEPTH_TEST, "verif_depth_limit", "VIOLATION depth limit")
        return _integration_test(d, v, WORKER_EXIT_TEST, "verif_worker_exit", "VIOLATION worker left without a stop reason")
    if pid == "C13":
        return _integration_test(d, v, BFS_ORDER_TEST, "verif_bfs_order", "VIOLATION BFS order")
    if " check_block: " in v["obligation"]:
        return _integration_test(d, v, DEPTH_TEST, "verif_depth_limit", "VIOLATION depth limit")
    if "the worker leaves only after" in v["obligation"]:
        sr = os.path.join(d, "pristine")
        os.makedirs(os.path.join(sr, "tests"), exist_ok=True)
        tp = os.path.join(sr, "tests", "verif_worker_exit.rs")
        v["replay_test"] = WORKER_EXIT_TEST
        if WORKER_EXIT_TEST in _WORKER_REPLAYS:
            return _WORKER_REPLAYS[WORKER_EXIT_TEST]
        open(tp, "w").write(WORKER_EXIT_TEST)
        try:
            env = dict(os.environ)
            env["CARGO_NET_OFFLINE"] = "true"
            env["CARGO_TARGET_DIR"] = os.path.join(CACHE_ROOT, "target-mir-native")
            r = subprocess.run(["cargo", "test", "--offline", "--test", "verif_worker_exit"], cwd=sr, env=env, stdout=subprocess.PIPE, stderr=subprocess.STDOUT, text=True, timeout=1500)
            if "VIOLATION worker left without a stop reason" in r.stdout:
                _WORKER_REPLAYS[WORKER_EXIT_TEST] = (True, r.stdout[-1500:])
            elif re.search(r"test result: ok\. 1 passed", r.stdout):
                _WORKER_REPLAYS[WORKER_EXIT_TEST] = (False, r.stdout[-800:])
            else:
                return None, r.stdout[-1500:]
            return _WORKER_REPLAYS[WORKER_EXIT_TEST]
        finally:
            os.remove(tp)
    if pid == "C12" and "wakes every waiter" in v["obligation"]:
        return _native_test(d, STATIC_TEST_SLEEPER, "verif_timeout_wakes_sleeping_worker", "VIOLATION sleeper not woken")
    if pid == "C12" and "not sleeping while holding the market mutex" in v["obligation"]:
        sr = os.path.join(d, "pristine")
        p = os.path.join(sr, "src", "job_market.rs")
        orig = open(p).read()
        try:
            open(p, "w").write(orig + STATIC_TEST)
            env = dict(os.environ)
            env["CARGO_NET_OFFLINE"] = "true"
            env["CARGO_TARGET_DIR"] = os.path.join(d, "target-replay")
            r = subprocess.run(["cargo", "test", "--lib", "--offline", "verif_timeout_does_not_stall_workers"], cwd=sr, env=env, stdout=subprocess.PIPE, stderr=subprocess.STDOUT, text=True, timeout=900)
            if "VIOLATION broker calls stalled" in r.stdout:
                return True, r.stdout[-1500:]
            if re.search(r"test result: ok\. 1 passed", r.stdout):
                return False, r.stdout[-800:]
            return None, r.stdout[-1500:]
        finally:
            open(p, "w").write(orig)
    return None, "no native demonstration implemented for this static obligation"


from texts import EXPLAIN, BOUNDS, OUTSIDE, ASSUME  # noqa: E402


if __name__ == "__main__":
    import argparse
    ap = argparse.ArgumentParser()
    ap.add_argument("pid")
    ap.add_argument("--tier", default="quick")
    ap.add_argument("--replay")
    a = ap.parse_args()
    sys.exit(run(a.pid, a.tier, int(os.environ.get("VERIF_SEED", "0") or 0), a.replay))
