#!/usr/bin/env python3
"""Driver for the solver-based checks of /verif (see DESIGN.md section 2).

Per run it copies /repo's working tree to a scratch directory outside /repo and /verif, overlays
the environment models and the harness modules, runs the engine (Kani/CBMC for engine K, the
MIR->SMT encoder `mirsym` for engine M), replays every counterexample natively, writes
evidence/<id>.json and sets the exit code:
  0  property held on everything explored (known findings are printed, not alarms)
  1  a violation that replays natively  ->  "VIOLATION property=<id> replay=<path>"
  2  inconclusive (tool error, timeout, OOM, unwinding assertion, non-reproducing counterexample)
"""
import concurrent.futures as cf
import fcntl
import hashlib
import json
import os
import re
import resource
import shutil
import subprocess
import sys
import time

VERIF = os.path.dirname(os.path.dirname(os.path.abspath(__file__)))
REPO = os.environ.get("VERIF_REPO", "/repo")
SCRATCH_ROOT = os.environ.get("VERIF_SCRATCH", "/var/tmp/verif-scratch")
CACHE_ROOT = os.environ.get("VERIF_CACHE", "/var/tmp/verif-cache")
JOBS = int(os.environ.get("VERIF_JOBS", "8"))
MEM_GB = int(os.environ.get("VERIF_MEM_GB", "32"))

sys.path.insert(0, os.path.join(VERIF, "lib"))
from props import PROPS  # noqa: E402


def log(*a):
    print(*a, file=sys.stderr, flush=True)


# ------------------------------------------------------------------------------------------------
# scratch copy + overlay


class Scratch:
    def __init__(self, pid, tag=""):
        self.pid = pid
        os.makedirs(SCRATCH_ROOT, exist_ok=True)
        os.makedirs(CACHE_ROOT, exist_ok=True)
        # fixed path per property so that cargo's dependency cache is reused; serialised by flock
        tag = tag + os.environ.get("VERIF_SCRATCH_TAG", "")
        self.lockf = open(os.path.join(SCRATCH_ROOT, f".lock-{pid}{tag}"), "w")
        try:
            fcntl.flock(self.lockf, fcntl.LOCK_EX | fcntl.LOCK_NB)
            self.dir = os.path.join(SCRATCH_ROOT, f"{pid}{tag}")
            self.target = os.path.join(CACHE_ROOT, f"target-{pid}{tag}")
            self.private = False
        except OSError:
            self.dir = os.path.join(SCRATCH_ROOT, f"{pid}{tag}-{os.getpid()}")
            self.target = os.path.join(self.dir, "target")
            self.private = True
        self.sr = os.path.join(self.dir, "sr")

    def create(self):
        shutil.rmtree(self.dir, ignore_errors=True)
        os.makedirs(self.dir)
        # no -t: every file gets a fresh mtime, so the crate itself is always rebuilt from the
        # current working tree of /repo; only third-party dependencies are reused from the cache
        subprocess.run(
            ["rsync", "-r", "--links", "--exclude", "/target", "--exclude", "/.git", REPO + "/", self.sr + "/"],
            check=True,
        )

    def cleanup(self):
        if os.environ.get("VERIF_KEEP_SCRATCH") == "1":  # debugging aid
            return
        shutil.rmtree(self.dir, ignore_errors=True)
        if os.environ.get("VERIF_KEEP_CACHE", "1") == "0":
            shutil.rmtree(self.target, ignore_errors=True)
        try:
            self.lockf.close()
        except Exception:
            pass


PATCH_SECTION = """
[patch.crates-io]
log = {{ path = "{v}/shims/log" }}
parking_lot = {{ path = "{v}/shims/parking_lot" }}
"""


def overlay_kani(sc, spec):
    """Overlay the environment models and the harness modules on the scratch copy."""
    if not os.path.exists(os.path.join(sc.sr, "Cargo.lock")) and os.path.exists("/repo/Cargo.lock"):
        shutil.copy("/repo/Cargo.lock", os.path.join(sc.sr, "Cargo.lock"))  # git worktrees of /repo do not carry the untracked lock file
    for fn in ("Cargo.toml", "Cargo.lock"):
        shutil.copy(os.path.join(sc.sr, fn), os.path.join(sc.dir, fn + ".pristine"))
    ahash_line = ""
    if spec.get("ahash_fixed_new"):
        ahash_line = 'ahash = {{ path = "{}" }}\n'.format(patched_ahash(sc))
    with open(os.path.join(sc.sr, "Cargo.toml"), "a") as f:
        f.write(PATCH_SECTION.format(v=VERIF))
        for extra in spec.get("extra_patches", []):
            f.write(extra.format(v=VERIF) + "\n")
        f.write(ahash_line)
        f.write('\n[lints.rust]\nunexpected_cfgs = "allow"\nunused = "allow"\n')
    hdir = os.path.join(sc.sr, "src", "verif_harness")
    os.makedirs(hdir, exist_ok=True)
    mods = []
    for fn in spec["files"]:
        shutil.copy(os.path.join(VERIF, "harness", "kani", fn), os.path.join(hdir, fn))
        mods.append(fn[:-3])
    with open(os.path.join(hdir, "mod.rs"), "w") as f:
        for m in mods:
            f.write(f"pub mod {m};\n")
    with open(os.path.join(sc.sr, "src", "lib.rs"), "a") as f:
        f.write("\n#[cfg(kani)]\nmod verif_harness;\n")
    # pristine copies of every file a transform touches, for native replay on the real sources
    for tr in spec.get("transforms", []):
        pr = os.path.join(sc.dir, "pristine", tr["file"])
        if not os.path.exists(pr):
            os.makedirs(os.path.dirname(pr), exist_ok=True)
            shutil.copy(os.path.join(sc.sr, tr["file"]), pr)
    # visibility-only transforms (private item -> pub(crate)) do not change behaviour and are
    # needed by the harness to compile: they are kept in the tree used for native replay
    for tr in spec.get("transforms", []):
        if tr.get("keep_for_replay"):
            pr = os.path.join(sc.dir, "pristine", tr["file"])
            txt = open(pr).read()
            txt2, n = re.subn(tr["regex"], tr["repl"], txt, flags=re.M)
            if n >= tr.get("min", 1):
                open(pr, "w").write(txt2)
    for tr in spec.get("transforms", []):
        apply_transform(sc, tr)
    uses_models = any(tr["repl"].startswith("crate::verif_models") for tr in spec.get("transforms", []))
    shutil.copy(os.path.join(VERIF, "models", "collections.rs"), os.path.join(sc.sr, "src", "verif_models.rs"))
    with open(os.path.join(sc.sr, "src", "lib.rs"), "a") as f:
        f.write("\n#[allow(dead_code)]\nmod verif_models;\n")
    # the harnesses name containers through verif_harness::coll, which is the models here and
    # std::collections in the pristine tree used for native replay
    shutil.copy(os.path.join(VERIF, "harness", "kani", "coll_models.rs" if uses_models else "coll_std.rs"), os.path.join(hdir, "coll.rs"))
    with open(os.path.join(hdir, "mod.rs"), "a") as f:
        f.write("pub mod coll;\n")


def patched_ahash(sc):
    """A copy of the REAL ahash crate (from the cargo registry cache) in which only
    `RandomState::new()` is replaced by fixed keys.  The original goes through a lazily initialised
    `Box<dyn RandomSource>` (OnceBox + virtual call + OS entropy); under Kani that path made verdicts
    depend on the absolute path of the dependency crates (spurious free()/pointer failures when
    /verif was checked out elsewhere).  The keys only seed the iteration order of hash tables -
    which are modelled - never stateright's own fingerprints (those use `with_seeds`)."""
    import glob
    lock = open(os.path.join(sc.sr, "Cargo.lock")).read()
    m = re.search(r'name = "ahash"\nversion = "([^"]+)"', lock)
    if not m:
        raise Inconclusive("ahash not found in Cargo.lock")
    cands = glob.glob(os.path.expanduser(f"~/.cargo/registry/src/*/ahash-{m.group(1)}"))
    if not cands:
        raise Inconclusive(f"ahash-{m.group(1)} sources not in the cargo registry cache")
    dst = os.path.join(sc.dir, "ahash-patched")
    shutil.copytree(cands[0], dst)
    rs = os.path.join(dst, "src", "random_state.rs")
    txt = open(rs).read()
    txt2, n = re.subn(r"pub fn new\(\) -> RandomState \{\n\s*let src = get_src\(\);\n\s*let fixed = get_fixed_seeds\(\);\n\s*Self::from_keys\(&fixed\[0\], &fixed\[1\], src\.gen_hasher_seed\(\)\)\n\s*\}",
                      "pub fn new() -> RandomState {\n        RandomState::with_seeds(0x243f_6a88_85a3_08d3, 0x1319_8a2e_0370_7344, 0xa409_3822_299f_31d0, 0x082e_fa98_ec4e_6c89)\n    }", txt)
    if n != 1:
        raise Inconclusive("could not patch ahash::RandomState::new (source layout changed)")
    open(rs, "w").write(txt2)
    return dst


def apply_transform(sc, tr):
    """A source transform of the scratch copy: (file, regex, replacement, min_count)."""
    path = os.path.join(sc.sr, tr["file"])
    s = open(path).read()
    s2, n = re.subn(tr["regex"], tr["repl"], s, flags=re.M)
    if n < tr.get("min", 1):
        raise Inconclusive(f"overlay transform did not apply to {tr['file']}: {tr['regex']}")
    open(path, "w").write(s2)


class Inconclusive(Exception):
    pass


# ------------------------------------------------------------------------------------------------
# harness discovery and Kani runs

HARNESS_RE = re.compile(r"#\[kani::proof\](?:\s*#\[[^\]]*\])*\s*(?:pub\s+)?fn\s+(\w+)", re.S)
DOC_RE = re.compile(r"((?:^\s*///.*\n)+)(?:\s*#\[[^\]]*\]\s*)*\s*(?:pub\s+)?fn\s+(\w+)", re.M)


def discover(spec, tier):
    out = []
    for fn in spec["files"]:
        if fn == "common.rs" or fn.startswith("model_"):
            continue
        src = open(os.path.join(VERIF, "harness", "kani", fn)).read()
        docs = {m.group(2): " ".join(l.strip().lstrip("/").strip() for l in m.group(1).splitlines()) for m in DOC_RE.finditer(src)}
        names = [m.group(1) for m in HARNESS_RE.finditer(src) if not m.group(1).startswith("$")]
        # harnesses generated by `<x>_harnesses!(name, name, ...)` macro invocations
        for inv in re.finditer(r"^\w+_harnesses!\((.*?)\);", src, re.S | re.M):
            names += re.findall(r"\b(c\d\d_\w+)\b", inv.group(1))
        for name in names:
            thorough_only = "_t_" in name
            if thorough_only and tier != "thorough":
                continue
            out.append({"name": name, "mod": fn[:-3], "doc": docs.get(name, ""), "thorough_only": thorough_only})
    return out


class Slot:
    """Machine-wide bound on concurrently running solver processes, across checks that happen to be
    started in parallel: one of VERIF_SLOTS lock files must be held while a harness runs."""

    def __init__(self):
        self.n = int(os.environ.get("VERIF_SLOTS", "10"))
        self.f = None

    def __enter__(self):
        d = os.path.join(CACHE_ROOT, "slots")
        os.makedirs(d, exist_ok=True)
        while True:
            for i in range(self.n):
                f = open(os.path.join(d, f"slot-{i}"), "w")
                try:
                    fcntl.flock(f, fcntl.LOCK_EX | fcntl.LOCK_NB)
                    self.f = f
                    return self
                except OSError:
                    f.close()
            time.sleep(2)

    def __exit__(self, *a):
        try:
            fcntl.flock(self.f, fcntl.LOCK_UN)
            self.f.close()
        except Exception:
            pass


def limit_mem():
    lim = MEM_GB * (1 << 30)
    try:
        resource.setrlimit(resource.RLIMIT_AS, (lim, lim))
    except Exception:
        pass


def cargo_env(sc):
    env = dict(os.environ)
    env["CARGO_NET_OFFLINE"] = "true"
    env["CARGO_TARGET_DIR"] = sc.target
    env.pop("RUSTUP_TOOLCHAIN", None)
    env.pop("RUSTFLAGS", None)
    return env


CHECK_RE = re.compile(
    r"^Check (\d+): (.+)\n\s+- Status: (\w+)\n\s+- Description: \"(.*)\"\n\s+- Location: (.*)$", re.M
)


def parse_kani(out):
    checks = []
    for m in CHECK_RE.finditer(out):
        checks.append({"n": int(m.group(1)), "id": m.group(2), "status": m.group(3), "desc": m.group(4).strip('"'), "loc": m.group(5)})
    res = None
    m = re.search(r"^VERIFICATION:- (\w+)", out, re.M)
    if m:
        res = m.group(1)
    t = None
    m = re.search(r"^Verification Time: ([\d.]+)s", out, re.M)
    if m:
        t = float(m.group(1))
    return checks, res, t


def run_kani(sc, h, timeout, extra_args=(), limit=True):
    full = f"verif_harness::{h['mod']}::{h['name']}"
    cmd = ["cargo", "kani", "-Z", "stubbing", "--harness", full, "--exact", *extra_args]
    t0 = time.time()
    # own session, so that a timeout can kill the whole tree (cargo -> kani-driver -> cbmc)
    p = subprocess.Popen(cmd, cwd=sc.sr, env=cargo_env(sc), stdout=subprocess.PIPE, stderr=subprocess.STDOUT,
                         preexec_fn=limit_mem if limit else None, text=True, errors="replace", start_new_session=True)
    try:
        out, _ = p.communicate(timeout=timeout)
        rc, timed_out = p.returncode, False
    except subprocess.TimeoutExpired:
        import signal
        try:
            os.killpg(p.pid, signal.SIGKILL)
        except ProcessLookupError:
            pass
        out, _ = p.communicate()
        rc, timed_out = -1, True
    return out, rc, timed_out, time.time() - t0


PROP_DESC = re.compile(r"^C\d\d\b")


def classify(h, out, rc, timed_out, pid):
    """Returns a dict: verdict in {pass, violation, inconclusive, twin_ok}, details."""
    checks, res, vt = parse_kani(out)
    r = {"harness": h["name"], "checks": len(checks), "verification_time_s": vt, "kani_result": res}
    covers = [c for c in checks if ".cover." in c["id"] or c["status"] in ("SATISFIED", "UNSATISFIABLE")]
    normal = [c for c in checks if c not in covers]
    failed = [c for c in normal if c["status"] == "FAILURE"]
    undet = [c for c in normal if c["status"] in ("UNDETERMINED", "ERROR")]
    r["n_failed"] = len(failed)
    r["n_success"] = sum(1 for c in normal if c["status"] == "SUCCESS")
    r["n_unreachable"] = sum(1 for c in normal if c["status"] == "UNREACHABLE")
    r["covers_satisfied"] = sorted({c["desc"] for c in covers if c["status"] == "SATISFIED"})
    r["functions"] = sorted({m.group(1) for c in checks for m in [re.search(r"(src/\S+?):\d+:\d+ in function (.*)$", c["loc"])] if m and not m.group(1).startswith("src/verif_harness") for m in [re.search(r"in function (.*)$", c["loc"])]})
    if timed_out:
        r["verdict"] = "inconclusive"
        r["why"] = "timeout"
        return r
    if re.search(r"Out of memory|out of memory|CBMC failed with status|CBMC failed\n", out) and not any(c["status"] == "FAILURE" for c in checks):
        r["verdict"] = "inconclusive"
        r["why"] = "CBMC ran out of memory / crashed (no verdict)"
        return r
    if res is None:
        r["verdict"] = "inconclusive"
        tail = out[-1500:]
        r["why"] = "no verification result (tool error / compile error / OOM): " + tail
        return r
    unwind_fail = [c for c in failed if "unwinding assertion" in c["desc"]]
    if unwind_fail or undet:
        r["verdict"] = "inconclusive"
        r["why"] = "unwinding assertion failed or undetermined checks: " + "; ".join(c["desc"] + " @ " + c["loc"] for c in (unwind_fail + undet)[:4])
        return r
    expect_unsat = [c for c in covers if c["desc"].startswith("EXPECT-UNSAT")]
    other_covers = [c for c in covers if not c["desc"].startswith("EXPECT-UNSAT")]
    is_twin = "twin_must_fail" in h["name"]
    if is_twin:
        twin_failed = [c for c in failed if c["desc"].startswith("TWIN")]
        others = [c for c in failed if not c["desc"].startswith("TWIN")]
        if twin_failed and not others:
            r["verdict"] = "twin_ok"
        else:
            r["verdict"] = "inconclusive"
            r["why"] = "vacuity twin did not fail as expected (assertion site unreachable or pipeline does not report failures)"
        return r
    bad = []
    for c in failed:
        if expect_unsat and not PROP_DESC.match(c["desc"]):
            continue  # the expected panic of a must-not-return harness
        bad.append(c)
    for c in expect_unsat:
        if c["status"] == "SATISFIED":
            bad.append({**c, "desc": c["desc"].replace("EXPECT-UNSAT", f"{pid} must-not-return violated:")})
    if bad:
        r["verdict"] = "violation"
        r["failed"] = [{"desc": c["desc"], "loc": c["loc"]} for c in bad]
        return r
    sat_descs = {c["desc"] for c in other_covers if c["status"] == "SATISFIED"}
    # a cover inside a const-generic helper is instantiated once per monomorphisation; it is a
    # witness as soon as one instance is satisfied
    unsat_covers = [c for c in other_covers if c["desc"] not in sat_descs]
    if unsat_covers:
        r["verdict"] = "inconclusive"
        r["why"] = "vacuity: cover not satisfied: " + "; ".join(c["desc"] for c in unsat_covers)
        return r
    if res != "SUCCESSFUL" and not expect_unsat:
        r["verdict"] = "inconclusive"
        r["why"] = f"kani says {res} without an identifiable failed check"
        return r
    r["verdict"] = "pass"
    return r


# ------------------------------------------------------------------------------------------------
# replay of counterexamples (concrete playback, native execution)

TEST_RE = re.compile(r"```\s*\n(/// Test generated for harness.*?)```", re.S)


def playback(sc, h, pid, timeout):
    """Ask Kani for concrete values of the failing harness, inject the generated unit test into
    the scratch copy and execute it natively. Returns (reproduced: bool|None, path, log)."""
    out, rc, to, _ = run_kani(sc, h, timeout, ("-Z", "concrete-playback", "--concrete-playback=print"), limit=False)
    tests = TEST_RE.findall(out)
    if not tests:
        m = re.search(r"(#\[test\]\s*fn kani_concrete_playback_\w+\(\).*?\n}\n)", out, re.S)
        if m:
            tests = [m.group(1)]
    if not tests:
        return None, None, "no concrete playback test produced\n" + out[-2000:]
    # Kani names a test after the hash of its concrete values: two failed checks with the same
    # counterexample would define the same function twice
    uniq, seen_names = [], set()
    for t in tests:
        nm = re.search(r"fn (kani_concrete_playback_\w+)", t)
        key = nm.group(1) if nm else t
        if key not in seen_names:
            seen_names.add(key)
            uniq.append(t)
    tests = uniq
    rdir = os.path.join(os.environ.get("VERIF_REPLAY_DIR", os.path.join(VERIF, "replays")), pid)
    os.makedirs(rdir, exist_ok=True)
    path = os.path.join(rdir, f"{h['name']}.rs")
    body = "\n".join(tests)
    with open(path, "w") as f:
        f.write(f"// replay for property {pid}, harness {h['mod']}::{h['name']}\n// inject into harness module {h['mod']}.rs of the scratch copy and run `cargo kani playback -Z concrete-playback`\n")
        f.write(body)
    ok, lg = run_playback(sc, h["mod"], body, timeout)
    return ok, path, lg


def run_playback(sc, mod, body, timeout):
    hp = os.path.join(sc.sr, "src", "verif_harness", mod + ".rs")
    orig = open(hp).read()
    names = re.findall(r"fn (kani_concrete_playback_\w+)", body)
    saved = {}
    try:
        with open(hp, "a") as f:
            f.write("\n" + body + "\n")
        # native replay runs against the REAL dependencies: drop the [patch] section (models)
        for fn in ("Cargo.toml", "Cargo.lock"):
            saved[fn] = open(os.path.join(sc.sr, fn)).read()
            shutil.copy(os.path.join(sc.dir, fn + ".pristine"), os.path.join(sc.sr, fn))
        with open(os.path.join(sc.sr, "Cargo.toml"), "a") as f:
            f.write('\n[lints.rust]\nunexpected_cfgs = "allow"\nunused = "allow"\n')
        # ... and the REAL sources and std containers: undo every source transform
        pdir = os.path.join(sc.dir, "pristine")
        for root, _, files in os.walk(pdir):
            for fn in files:
                rel = os.path.relpath(os.path.join(root, fn), pdir)
                saved[rel] = open(os.path.join(sc.sr, rel)).read()
                shutil.copy(os.path.join(root, fn), os.path.join(sc.sr, rel))
        cp = os.path.join(sc.sr, "src", "verif_harness", "coll.rs")
        saved["src/verif_harness/coll.rs"] = open(cp).read()
        shutil.copy(os.path.join(VERIF, "harness", "kani", "coll_std.rs"), cp)
        env = cargo_env(sc)
        env.pop("CARGO_TARGET_DIR", None)  # playback rejects --target-dir; keep its output inside the scratch copy
        reproduced = False
        lg = ""
        for n in names:
            p = subprocess.run(
                ["cargo", "kani", "playback", "-Z", "concrete-playback", "--", n],
                cwd=sc.sr, env=env, stdout=subprocess.PIPE, stderr=subprocess.STDOUT, timeout=timeout, text=True, errors="replace",
            )
            lg += p.stdout[-3000:]
            if re.search(r"test result: FAILED|panicked at", p.stdout):
                reproduced = True
            elif not re.search(r"test result: ok", p.stdout):
                return None, lg
        return reproduced, lg
    finally:
        open(hp, "w").write(orig)
        for fn, txt in saved.items():
            open(os.path.join(sc.sr, fn), "w").write(txt)


# ------------------------------------------------------------------------------------------------
# known findings


def load_known():
    p = os.path.join(VERIF, "known_findings.json")
    if not os.path.exists(p):
        return []
    return [e for e in json.load(open(p)).get("findings", []) if e.get("status") == "known"]


def match_known(known, pid, harness, desc):
    for e in known:
        if e["property"] == pid and re.fullmatch(e["harness"], harness) and re.search(e["role"], desc):
            return e
    return None


# ------------------------------------------------------------------------------------------------


def run_kani_property(pid, tier, seed, replay=None):
    spec = PROPS[pid]
    t0 = time.time()
    sc = Scratch(pid, "-" + tier if tier == "thorough" else "")
    known = load_known()
    results, violations, inconcl, known_hits = [], [], [], []
    try:
        sc.create()
        overlay_kani(sc, spec)
        if replay:
            body = open(replay).read()
            m = re.search(r"harness (\w+)::(\w+)", body)
            ok, lg = run_playback(sc, m.group(1), body, 1200)
            print(lg)
            print("REPLAY:", "violation reproduced" if ok else ("not reproduced" if ok is False else "inconclusive"))
            return 1 if ok else (0 if ok is False else 2)
        hs = discover(spec, tier)
        import random
        random.Random(seed).shuffle(hs)  # VERIF_SEED only changes the order in which harnesses are scheduled
        only = os.environ.get("VERIF_ONLY")  # debugging aid: restrict to harnesses matching a regex
        if only:
            hs = [h for h in hs if re.search(only, h["name"])]
        timeout = spec.get("timeout", {}).get(tier, 700 if tier == "quick" else 2400)
        # warm the dependency cache with a codegen-only build so parallel runs do not all block
        h0 = hs[0]
        log(f"[{pid}] {len(hs)} harnesses, tier={tier}, jobs={JOBS}, scratch={sc.sr}")
        p = subprocess.run(["cargo", "kani", "-Z", "stubbing", "--only-codegen", "--harness", f"verif_harness::{h0['mod']}::{h0['name']}", "--exact"],
                           cwd=sc.sr, env=cargo_env(sc), stdout=subprocess.PIPE, stderr=subprocess.STDOUT, text=True, errors="replace")
        if p.returncode != 0:
            errs = "\n".join(l for l in p.stdout.splitlines() if l.startswith("error") or "-->" in l)[:3000]
            raise Inconclusive("harness/crate does not compile under Kani:\n" + errs + "\n" + p.stdout[-1500:])
        log(f"[{pid}] build ok ({time.time()-t0:.0f}s)")

        def work(h):
            with Slot():
                out, rc, to, wall = run_kani(sc, h, timeout)
            r = classify(h, out, rc, to, pid)
            r["wall_s"] = round(wall, 1)
            r["doc"] = h["doc"]
            if r["verdict"] in ("inconclusive",):
                os.makedirs(os.path.join(VERIF, "logs"), exist_ok=True)
                open(os.path.join(VERIF, "logs", f"{pid}-{h['name']}.log"), "w").write(out[:100000] + "\n...\n" + out[-300000:])
            log(f"[{pid}] {h['name']}: {r['verdict']} ({wall:.0f}s, {r['checks']} checks)")
            return h, r

        # memory-hungry harnesses (two/three-actor states, longest vectors) run at most two at a
        # time after the light ones: three of them side by side exhaust 62 GB
        heavy_re = re.compile(r"_n[234]\b|_n[234]_|perm4|len[24]|hashmap_adjacent|insertion_order|network_rewrite")
        light = [h for h in hs if not heavy_re.search(h["name"])]
        heavy = [h for h in hs if heavy_re.search(h["name"])]
        done = []
        if light:
            with cf.ThreadPoolExecutor(max_workers=JOBS) as ex:
                done += list(ex.map(work, light))
        if heavy:
            with cf.ThreadPoolExecutor(max_workers=min(JOBS, int(os.environ.get("VERIF_HEAVY_JOBS", "3")))) as ex:
                done += list(ex.map(work, heavy))
        for h, r in done:
            results.append(r)
            if r["verdict"] == "inconclusive":
                inconcl.append(r)
            elif r["verdict"] == "violation":
                unknown = []
                for f in r["failed"]:
                    e = match_known(known, pid, h["name"], f["desc"])
                    if e:
                        known_hits.append((e, h["name"], f["desc"]))
                    else:
                        unknown.append(f)
                if unknown:
                    ok, path, lg = playback(sc, h, pid, max(4 * timeout, 1800))  # trace extraction is several times slower than the plain verdict
                    r["replay"] = {"reproduced": ok, "path": path}
                    if ok:
                        violations.append((h, r, path, unknown))
                    else:
                        r["verdict"] = "inconclusive"
                        r["why"] = "counterexample did not reproduce natively (stub/harness suspect)" if ok is False else "replay could not be produced: " + (lg or "")[-800:]
                        inconcl.append(r)
                else:
                    r["verdict"] = "known_finding"
    except Inconclusive as e:
        inconcl.append({"harness": "<setup>", "verdict": "inconclusive", "why": str(e)})
        results.append(inconcl[-1])
    finally:
        sc.cleanup()
    if replay:
        return 2
    wall = time.time() - t0
    write_evidence_kani(pid, tier, seed, spec, results, violations, inconcl, known_hits, wall)
    seen = set()
    for e, hn, desc in known_hits:
        k = (e["property"], e["role"])
        if k in seen:
            continue
        seen.add(k)
        print(f"KNOWN-FINDING: property={pid} {e['what']} [{hn}: {desc}]")
    for h, r, path, unknown in violations:
        print(f"VIOLATION property={pid} replay={path}")
        for f in unknown:
            print(f"  failed: {f['desc']} @ {f['loc']}")
    if violations:
        return 1
    if inconcl:
        for r in inconcl:
            print(f"INCONCLUSIVE property={pid} harness={r['harness']}: {r.get('why','')[:2000]}")
        return 2
    extra = os.environ.get("VERIF_EXTRA_PART_STATUS")  # status of a second engine's part of the same property (C17)
    if extra in ("1", "2"):
        print(f"[{pid}] Kani part: {sum(1 for r in results if r['verdict']=='pass')} harnesses passed (the property's other part did not pass, see above)")
        return 0
    print(f"OK property={pid} tier={tier}: {sum(1 for r in results if r['verdict']=='pass')} harnesses passed, "
          f"{sum(r.get('n_success',0) for r in results)} solver-checked obligations{os.environ.get('VERIF_EXTRA_PART_NOTE', '')}, {wall:.0f}s")
    return 0


def write_evidence_kani(pid, tier, seed, spec, results, violations, inconcl, known_hits, wall):
    n_ob = sum(r.get("checks", 0) for r in results)
    n_ok = sum(r.get("n_success", 0) + r.get("n_unreachable", 0) + len(r.get("covers_satisfied", [])) for r in results)
    funcs = sorted({f for r in results for f in r.get("functions", [])})
    samples = []
    for r in results:
        samples.append({
            "harness": r["harness"], "what": r.get("doc", ""), "verdict": r["verdict"],
            "cbmc_checks": r.get("checks"), "failed": r.get("failed", []),
            "covers_satisfied": r.get("covers_satisfied", []), "solver_s": r.get("verification_time_s"),
            **({"why": r["why"][:600]} if r.get("why") else {}),
        })
    ev = {
        "property_id": pid,
        "tier": tier,
        "seed": seed,
        "level": "other",
        "coverage": {
            "explanation": spec["explanation"],
            "engine": "Kani 0.68.0 / CBMC 6.11.0 (CaDiCaL) bounded model checking of the compiled crate; harnesses compiled inside a scratch copy of /repo's working tree",
            "bounds": spec["bounds"],
            "outside_claim": spec["outside"],
            "functions_encoded": funcs,
            "harnesses": len(results),
            "harnesses_passed": sum(1 for r in results if r["verdict"] == "pass"),
            "vacuity_twins_failed_as_required": sum(1 for r in results if r["verdict"] == "twin_ok"),
            "obligations": n_ob,
            "discharged": n_ok,
            "queries": len(results),
            "solver_time_s": round(sum(r.get("verification_time_s") or 0 for r in results), 1),
            "evaluations": len(results),
            "distinct_nontrivial": sum(1 for r in results if r["verdict"] in ("pass", "twin_ok", "known_finding", "violation")),
            "rule": "one evaluation = one harness decided by the solver over all inputs within its bound; non-trivial = reached its assertions (all covers satisfied / twin failed)",
            "samples": samples,
            "checker_cmd": f"bin/check {pid} --tier {tier}",
            "trusted_base": ["rustc + Kani MIR->goto lowering", "CBMC 6.11 + CaDiCaL", "shims/log", "shims/parking_lot"] + spec.get("trusted", []),
            "exhaustive": False,
            "inconclusive": [{"harness": r["harness"], "why": r.get("why", "")[:600]} for r in inconcl],
            "known_findings_seen": [{"role": e["role"], "harness": hn, "failed": d} for e, hn, d in known_hits],
            "repo_tree_hash": tree_hash(),
        },
        "assumptions": spec["assumptions"],
        "wall_s": round(wall, 1),
        "violations": len(violations),
    }
    evdir = os.environ.get("VERIF_EVIDENCE_DIR", os.path.join(VERIF, "evidence"))
    os.makedirs(evdir, exist_ok=True)
    with open(os.path.join(evdir, f"{pid}.json"), "w") as f:
        json.dump(ev, f, indent=1)


def tree_hash():
    h = hashlib.sha256()
    for root, _, files in sorted(os.walk(os.path.join(REPO, "src"))):
        for fn in sorted(files):
            p = os.path.join(root, fn)
            h.update(p.encode())
            h.update(open(p, "rb").read())
    return h.hexdigest()[:16]


def main():
    import argparse
    ap = argparse.ArgumentParser()
    ap.add_argument("pid")
    ap.add_argument("--tier", default=os.environ.get("VERIF_TIER", "quick"), choices=["quick", "thorough"])
    ap.add_argument("--replay")
    a = ap.parse_args()
    seed = int(os.environ.get("VERIF_SEED", "0") or 0)
    spec = PROPS[a.pid]
    if spec["engine"] == "kani":
        rc_m, part, part_out = 0, None, None
        if a.pid == "C17" and a.replay and a.replay.endswith(".json"):
            # counterexample of the runtime-loop part (mirsym): replayed by the driver
            sys.exit(subprocess.call(["python3-vt", os.path.join(VERIF, "mirsym", "driver.py"), a.pid, "--tier", a.tier, "--replay", a.replay]))
        if a.pid == "C17" and not a.replay and not os.environ.get("VERIF_ONLY"):
            # C17 has a second part decided by engine M (the UDP runtime loop): run it first
            part_out = os.path.join(SCRATCH_ROOT, f"C17-part-{os.getpid()}.json")
            os.makedirs(SCRATCH_ROOT, exist_ok=True)
            env = dict(os.environ)
            env["VERIF_PART_OUT"] = part_out
            rc_m = subprocess.call(["python3-vt", os.path.join(VERIF, "mirsym", "driver.py"), a.pid, "--tier", a.tier], env=env)
            try:
                part = json.load(open(part_out))
            except Exception:  # noqa: BLE001
                part = None
                if rc_m == 0:
                    rc_m = 2
                    print("INCONCLUSIVE property=C17: the runtime-loop part produced no result file")
            finally:
                if os.path.exists(part_out):
                    os.remove(part_out)
            os.environ["VERIF_EXTRA_PART_STATUS"] = str(rc_m)
            if part and rc_m == 0:
                os.environ["VERIF_EXTRA_PART_NOTE"] = f" + {part['discharged']}/{part['obligations']} runtime-loop obligations (MIR, z3)"
        try:
            rc = run_kani_property(a.pid, a.tier, seed, a.replay)
            if part is not None:
                evp = os.path.join(os.environ.get("VERIF_EVIDENCE_DIR", os.path.join(VERIF, "evidence")), f"{a.pid}.json")
                ev = json.load(open(evp))
                c = ev["coverage"]
                c["runtime_loop_mirsym"] = part
                c["obligations"] += part["obligations"]
                c["discharged"] += part["discharged"]
                c["queries"] += part["solver_queries"]
                c["solver_time_s"] = round(c["solver_time_s"] + part["solver_time_s"], 1)
                c["functions_encoded"] = c["functions_encoded"] + [f"actor::spawn::spawn per-actor thread closure {part['function']} (MIR sha256 {part['mir_sha256']}, {part['blocks']} basic blocks)"]
                c["inconclusive"] = c["inconclusive"] + [{"harness": "runtime loop (mirsym)", "why": w[:600]} for w in part["inconclusive"]]
                ev["violations"] += part["violations"]
                json.dump(ev, open(evp, "w"), indent=1)
            if rc_m == 1 or rc == 1:
                rc = 1
            elif rc_m == 2 or rc == 2:
                rc = 2
        except Exception:  # noqa: BLE001 - an internal error is never a verdict
            import traceback
            print(f"INCONCLUSIVE property={a.pid}: internal error in the runner: {traceback.format_exc()[-1200:]}")
            rc = 2
    else:
        cmd = ["python3-vt", os.path.join(VERIF, "mirsym", "driver.py"), a.pid, "--tier", a.tier] + (["--replay", a.replay] if a.replay else [])
        rc = subprocess.call(cmd)
    sys.exit(rc)


if __name__ == "__main__":
    main()
