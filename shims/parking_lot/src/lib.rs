//! Verification model of `parking_lot` (API subset used by stateright).
//!
//! Real parking_lot reaches `catch_unwind`/thread parking, which Kani 0.68 cannot compile (ICE).
//! This model is *sequential*: it is only ever executed by one thread (Kani harnesses) or read as
//! MIR by `mirsym`, for which `Mutex::lock`, `Condvar::wait`, `notify_one`, `notify_all` and the
//! guard drop are the recognisable synchronisation points.  Contract assumed: mutual exclusion;
//! `wait` releases and re-acquires atomically; `notify_one` wakes at most one current waiter,
//! `notify_all` all current waiters.
use std::cell::UnsafeCell;
use std::ops::{Deref, DerefMut};

pub struct Mutex<T: ?Sized> {
    data: UnsafeCell<T>,
}
unsafe impl<T: ?Sized + Send> Send for Mutex<T> {}
unsafe impl<T: ?Sized + Send> Sync for Mutex<T> {}

pub struct MutexGuard<'a, T: ?Sized> {
    m: &'a Mutex<T>,
}

impl<T> Mutex<T> {
    pub const fn new(t: T) -> Self {
        Mutex { data: UnsafeCell::new(t) }
    }
    pub fn into_inner(self) -> T {
        self.data.into_inner()
    }
}
impl<T: ?Sized> Mutex<T> {
    #[inline(never)]
    pub fn lock(&self) -> MutexGuard<'_, T> {
        MutexGuard { m: self }
    }
    pub fn get_mut(&mut self) -> &mut T {
        self.data.get_mut()
    }
}
impl<T: ?Sized> Drop for MutexGuard<'_, T> {
    /// unlock: kept as an explicit (empty) destructor so that the release point of every guard
    /// is visible as a `drop(_guard)` terminator in the MIR read by mirsym
    #[inline(never)]
    fn drop(&mut self) {}
}
impl<T: ?Sized> Deref for MutexGuard<'_, T> {
    type Target = T;
    fn deref(&self) -> &T {
        unsafe { &*self.m.data.get() }
    }
}
impl<T: ?Sized> DerefMut for MutexGuard<'_, T> {
    fn deref_mut(&mut self) -> &mut T {
        unsafe { &mut *self.m.data.get() }
    }
}
impl<T: Default> Default for Mutex<T> {
    fn default() -> Self {
        Mutex::new(T::default())
    }
}

pub struct Condvar {
    _p: (),
}
impl Condvar {
    pub const fn new() -> Self {
        Condvar { _p: () }
    }
    #[inline(never)]
    pub fn notify_one(&self) -> bool {
        false
    }
    #[inline(never)]
    pub fn notify_all(&self) -> usize {
        0
    }
    /// Sequential model: nobody could ever wake us.
    #[inline(never)]
    pub fn wait<T: ?Sized>(&self, _guard: &mut MutexGuard<'_, T>) {
        panic!("parking_lot model: Condvar::wait reached in a sequential execution");
    }
}
impl Default for Condvar {
    fn default() -> Self {
        Condvar::new()
    }
}

pub struct RwLock<T: ?Sized> {
    data: UnsafeCell<T>,
}
unsafe impl<T: ?Sized + Send> Send for RwLock<T> {}
unsafe impl<T: ?Sized + Send + Sync> Sync for RwLock<T> {}
pub struct RwLockReadGuard<'a, T: ?Sized> {
    l: &'a RwLock<T>,
}
pub struct RwLockWriteGuard<'a, T: ?Sized> {
    l: &'a RwLock<T>,
}
impl<T> RwLock<T> {
    pub const fn new(t: T) -> Self {
        RwLock { data: UnsafeCell::new(t) }
    }
}
impl<T: ?Sized> RwLock<T> {
    pub fn read(&self) -> RwLockReadGuard<'_, T> {
        RwLockReadGuard { l: self }
    }
    pub fn write(&self) -> RwLockWriteGuard<'_, T> {
        RwLockWriteGuard { l: self }
    }
}
impl<T: ?Sized> Deref for RwLockReadGuard<'_, T> {
    type Target = T;
    fn deref(&self) -> &T {
        unsafe { &*self.l.data.get() }
    }
}
impl<T: ?Sized> Deref for RwLockWriteGuard<'_, T> {
    type Target = T;
    fn deref(&self) -> &T {
        unsafe { &*self.l.data.get() }
    }
}
impl<T: ?Sized> DerefMut for RwLockWriteGuard<'_, T> {
    fn deref_mut(&mut self) -> &mut T {
        unsafe { &mut *self.l.data.get() }
    }
}
