"""Bounded model checking of the job-broker protocol: z3 chooses the schedule, the block outcomes
and the stop reasons; the broker's behaviour is the set of MIR-derived segment summaries.

Worker automaton (the call sequence of the worker closures in bfs.rs / dfs.rs / on_demand.rs,
cross-checked against their MIR by `worker_calls_ok`):
  pc 0 NEED_POP   -> pop()            -> jobs: pc 2 | empty: pc 4 | blocks in wait: pc 1
  pc 1 WAITING    -> (woken) pop cont. -> as above
  pc 2 HAVE_WORK  -> one block: consumes c>=1 jobs, generates g>=0          -> pc 5
  pc 5 AFTER_WORK -> finish/target/panic: pc 4 | queue empty: pc 0 | >1 jobs and >1 thread:
                     split_and_push -> pc 2 | else pc 2
  pc 4 DROPPING   -> Drop for JobBroker -> pc 3 DONE
"""
import z3

from jobmarket import BrokerModel, Market, CAP

NEED_POP, WAITING, HAVE_WORK, DONE, DROPPING, AFTER_WORK = 0, 1, 2, 3, 4, 5


class SysState:
    def __init__(self, tag, T):
        self.mk = Market.fresh(f"@{tag}")
        self.pc = [z3.Int(f"pc{w}@{tag}") for w in range(T)]
        self.L = [z3.Int(f"L{w}@{tag}") for w in range(T)]
        self.notif = [z3.Bool(f"nt{w}@{tag}") for w in range(T)]
        self.consumed = z3.Int(f"consumed@{tag}")
        self.generated = z3.Int(f"generated@{tag}")
        self.discarded = z3.Int(f"discarded@{tag}")
        self.stop_req = z3.Bool(f"stop@{tag}")
        self.qclose_bad = z3.Bool(f"qbad@{tag}")  # quiescence close happened while work existed
        self.T = T

    def work_total(self):
        t = self.mk.total()
        for w in range(self.T):
            t = t + z3.If(z3.Or(self.pc[w] == HAVE_WORK, self.pc[w] == AFTER_WORK), self.L[w], 0)
        return t


class Protocol:
    def __init__(self, bm: BrokerModel, T, lmax=6, gmax=2, spurious=False, share="guarded"):
        self.share = share  # how the worker loop decides to call split_and_push (derived from its MIR by workerloop.share_form)
        self.bm, self.T, self.lmax, self.gmax, self.spurious = bm, T, lmax, gmax, spurious
        bm.tmax = max(bm.tmax, T)
        bm.lmax = lmax
        self.g = Market.fresh("#")  # generic pre-state of the summaries
        self.gL = z3.Int("L#")
        self.S = {
            "pop": bm.summarize("pop", self.g),
            "pop_resume": None,
            "split": bm.summarize("split_and_push", self.g, local_len=self.gL),
            "push": bm.summarize("push", self.g, local_len=self.gL),
            "drop": bm.summarize("drop", self.g),
        }
        waits = [s for s in self.S["pop"] if s.kind == "wait"]
        if len({s.resume for s in waits}) != 1:
            raise Exception(f"pop: expected exactly one wait site, got {[s.resume for s in waits]}")
        if len({(s.info.get("resume_body"), s.resume) for s in waits}) != 1:
            raise Exception("pop: several wait sites")
        self.S["pop_resume"] = bm.summarize_resume(waits[0], self.g)
        self.init_mk = bm.initial_market(z3.IntVal(T))
        self.P0 = z3.Int("P0")  # size of the initial batch pushed by spawn()
        self.n_summaries = sum(len(v) for v in self.S.values())

    # ---- instantiate a summary on concrete state terms ------------------------------------------
    def inst(self, e, mk: Market, L=None):
        subs = list(zip(self.g.vars(), mk.vars()))
        if L is not None:
            subs.append((self.gL, L))
        return z3.substitute(e, *subs) if isinstance(e, z3.ExprRef) else e

    def mk_eq(self, a: Market, post: Market, pre: Market, L=None):
        c = [a.open == self.inst(post.open, pre, L), a.tc == self.inst(post.tc, pre, L), a.oc == self.inst(post.oc, pre, L), a.n == self.inst(post.n, pre, L)]
        for i in range(CAP):
            c.append(a.slots[i] == self.inst(post.slots[i], pre, L))
        return c

    def frame(self, s, t, w, keep_market=False):
        """everything of the other workers stays; optionally the market too"""
        c = []
        for v in range(self.T):
            if v != w:
                c += [t.pc[v] == s.pc[v], t.L[v] == s.L[v]]
        if keep_market:
            c += [x == y for x, y in zip(t.mk.vars(), s.mk.vars())]
        return c

    def notify(self, s, t, w, events, tag):
        """wake-ups caused by a segment of worker w: solver-chosen targets among current waiters"""
        k_one = sum(1 for e in events if e[0] == "notify_one")
        k_all = any(e[0] == "notify_all" for e in events)
        c = []
        cand = [z3.And(s.pc[v] == WAITING, z3.Not(s.notif[v])) if v != w else z3.BoolVal(False) for v in range(self.T)]
        woke = [z3.Bool(f"woke{v}!{tag}") for v in range(self.T)]
        ncand = z3.Sum([z3.If(x, 1, 0) for x in cand])
        nwoke = z3.Sum([z3.If(x, 1, 0) for x in woke])
        for v in range(self.T):
            c.append(z3.Implies(woke[v], cand[v]))
        if k_all:
            for v in range(self.T):
                c.append(woke[v] == cand[v])
        else:
            c.append(nwoke == z3.If(ncand < k_one, ncand, k_one))
        for v in range(self.T):
            if v != w:
                c.append(t.notif[v] == z3.Or(s.notif[v], woke[v]))
        return c

    def step(self, s: SysState, t: SysState, tag):
        """T(s,t): some worker performs one atomic move. Returns (formula, who)"""
        who = z3.Int(f"who!{tag}")
        alts = []
        for w in range(self.T):
            moves = []
            base = [who == w]
            same_counts = [t.consumed == s.consumed, t.generated == s.generated, t.stop_req == s.stop_req]

            def broker_moves(summaries, pre_ok, L_in, after):
                """after(summary) -> list of constraints for pc/L of w given the summary's outcome"""
                for i, sm in enumerate(summaries):
                    if sm.kind == "bound":
                        continue
                    c = list(base) + [pre_ok, self.inst(sm.guard, s.mk, L_in)]
                    c += self.mk_eq(t.mk, sm.post, s.mk, L_in)
                    c += self.frame(s, t, w)
                    c += self.notify(s, t, w, sm.events, f"{tag}.{w}.{sm.method}{sm.entry}.{i}")
                    c += [t.discarded == s.discarded + self.inst(sm.discarded, s.mk, L_in)]
                    c += after(sm)
                    moves.append(z3.And(*c))

            # pop (fresh call or continuation after a wake-up)
            def after_pop(sm):
                qbad = [t.qclose_bad == s.qclose_bad]
                if sm.kind == "wait":
                    return [t.pc[w] == WAITING, t.L[w] == 0, t.notif[w] == False] + same_counts + qbad
                if sm.kind == "panic":
                    return [t.pc[w] == DROPPING, t.L[w] == 0, t.notif[w] == False, t.consumed == s.consumed, t.generated == s.generated, t.stop_req == True] + qbad
                rl = self.inst(sm.ret_len, s.mk)
                closes_by_quiescence = any(e[0] == "notify_all" for e in sm.events)
                if closes_by_quiescence:
                    others_work = z3.Or(*[z3.Or(s.pc[v] == HAVE_WORK, s.pc[v] == AFTER_WORK) for v in range(self.T) if v != w]) if self.T > 1 else z3.BoolVal(False)
                    qbad = [t.qclose_bad == z3.Or(s.qclose_bad, z3.And(s.mk.open, z3.Not(s.stop_req), z3.Or(others_work, s.mk.total() > 0)))]
                # a worker that pops an EMPTY batch (only possible for an empty initial push) takes it
                # for "no more work" and leaves: that is a stop reason like finish/panic
                is_batch = not (z3.is_int_value(z3.simplify(sm.ret_len)) and z3.simplify(sm.ret_len).as_long() == 0)
                # ... but only the initial push can legitimately be empty (no initial states): an empty
                # batch handed out later is a broker defect and must not be excused as a stop reason
                stop2 = z3.Or(s.stop_req, z3.And(rl == 0, self.P0 == 0)) if is_batch else s.stop_req
                return [t.pc[w] == z3.If(rl > 0, HAVE_WORK, DROPPING), t.L[w] == rl, t.notif[w] == False,
                        t.consumed == s.consumed, t.generated == s.generated, t.stop_req == stop2] + qbad

            broker_moves(self.S["pop"], s.pc[w] == NEED_POP, None, after_pop)
            wake_ok = s.pc[w] == WAITING if self.spurious else z3.And(s.pc[w] == WAITING, s.notif[w])
            broker_moves(self.S["pop_resume"], wake_ok, None, after_pop)

            # one block of work
            cj, gj = z3.Int(f"c!{tag}.{w}"), z3.Int(f"g!{tag}.{w}")
            moves.append(z3.And(*(base + [s.pc[w] == HAVE_WORK, cj >= 1, cj <= s.L[w], gj >= 0, gj <= self.gmax, s.L[w] - cj + gj <= self.lmax,
                                          t.pc[w] == AFTER_WORK, t.L[w] == s.L[w] - cj + gj, t.notif[w] == s.notif[w],
                                          t.consumed == s.consumed + cj, t.generated == s.generated + gj, t.stop_req == s.stop_req,
                                          t.discarded == s.discarded, t.qclose_bad == s.qclose_bad]
                                   + self.frame(s, t, w, keep_market=True) + [t.notif[v] == s.notif[v] for v in range(self.T) if v != w])))
            # after the block: stop / need pop / keep going without sharing
            stop = z3.Bool(f"finish!{tag}.{w}")
            share_cond = z3.And(s.L[w] > 1, s.mk.tc > 1) if self.share == "guarded" else z3.BoolVal(True)
            moves.append(z3.And(*(base + [s.pc[w] == AFTER_WORK, z3.Or(stop, z3.Not(share_cond)),
                                          t.pc[w] == z3.If(stop, DROPPING, z3.If(s.L[w] == 0, NEED_POP, HAVE_WORK)),
                                          t.L[w] == z3.If(stop, 0, s.L[w]), t.notif[w] == s.notif[w],
                                          t.consumed == s.consumed, t.generated == s.generated, t.stop_req == z3.Or(s.stop_req, stop),
                                          t.discarded == s.discarded, t.qclose_bad == s.qclose_bad]
                                   + self.frame(s, t, w, keep_market=True) + [t.notif[v] == s.notif[v] for v in range(self.T) if v != w])))

            # ... or share: split_and_push
            def after_split(sm):
                lp = self.inst(sm.local_post, s.mk, s.L[w])
                if sm.kind == "panic":
                    return [t.pc[w] == DROPPING, t.L[w] == 0, t.notif[w] == s.notif[w], t.consumed == s.consumed, t.generated == s.generated, t.stop_req == True, t.qclose_bad == s.qclose_bad]
                return [t.pc[w] == z3.If(lp > 0, HAVE_WORK, NEED_POP), t.L[w] == lp, t.notif[w] == s.notif[w], t.qclose_bad == s.qclose_bad] + same_counts

            broker_moves(self.S["split"], z3.And(s.pc[w] == AFTER_WORK, share_cond), s.L[w], after_split)

            # Drop for JobBroker
            def after_drop(sm):
                return [t.pc[w] == DONE, t.L[w] == 0, t.notif[w] == s.notif[w], t.qclose_bad == s.qclose_bad] + same_counts

            broker_moves(self.S["drop"], s.pc[w] == DROPPING, None, after_drop)
            alts.append(z3.Or(*moves))
        return z3.Or(*alts), who

    def init(self, s: SysState, P0=None):
        P0 = self.P0
        """JobBroker::new(T, None); push(pending) with |pending| = P0; T workers about to pop."""
        pushes = [sm for sm in self.S["push"] if sm.kind == "return"]
        alts = []
        for sm in pushes:
            c = [self.inst(sm.guard, self.init_mk, P0)] + self.mk_eq(s.mk, sm.post, self.init_mk, P0)
            alts.append(z3.And(*c))
        c = [z3.Or(*alts), P0 >= 0, P0 <= self.lmax]
        for w in range(self.T):
            c += [s.pc[w] == NEED_POP, s.L[w] == 0, s.notif[w] == False]
        c += [s.consumed == 0, s.generated == 0, s.discarded == 0, s.stop_req == False, s.qclose_bad == False]
        return z3.And(*c)

    # ---- properties ------------------------------------------------------------------------------
    def deadlock(self, s):
        """some worker sleeps and nobody can ever move again"""
        stuck = [z3.Or(s.pc[w] == DONE, z3.And(s.pc[w] == WAITING, z3.Not(s.notif[w]))) for w in range(self.T)]
        some_wait = z3.Or(*[s.pc[w] == WAITING for w in range(self.T)])
        return z3.And(some_wait, *stuck)

    def lost_or_duplicated(self, s, P0):
        """while nobody asked to stop: every job is in the market, in a local queue or consumed"""
        return z3.And(z3.Not(s.stop_req), z3.Or(s.work_total() + s.consumed != P0 + s.generated, s.discarded != 0))

    def handed_out_after_close(self, s):
        return z3.And(z3.Not(s.mk.open), s.mk.n != 0)

    def inv(self, s):
        active = z3.Sum([z3.If(z3.Or(s.pc[w] == NEED_POP, s.pc[w] == HAVE_WORK, s.pc[w] == AFTER_WORK, s.pc[w] == DROPPING), 1, 0) for w in range(self.T)])
        c = [s.mk.tc == self.T, s.mk.n >= 0, s.mk.n <= CAP, s.mk.oc >= 0, s.mk.oc <= self.T, z3.Implies(s.mk.open, s.mk.oc == active), z3.Implies(z3.Not(s.mk.open), s.mk.n == 0),
             # on a closed market open_count never exceeds the workers that have not left yet
             z3.Implies(z3.Not(s.mk.open), s.mk.oc <= active)]
        # nobody sleeps un-notified unless somebody else is still going to move (deadlock freedom)
        sleeping = z3.Or(*[z3.And(s.pc[w] == WAITING, z3.Not(s.notif[w])) for w in range(self.T)])
        woken = z3.Or(*[z3.And(s.pc[w] == WAITING, s.notif[w]) for w in range(self.T)])
        c.append(z3.Implies(sleeping, z3.Or(active >= 1, woken)))
        for w in range(self.T):
            c += [z3.Or(*[s.pc[w] == k for k in (0, 1, 2, 3, 4, 5)]), s.L[w] >= 0, s.L[w] <= self.lmax,
                  z3.Implies(z3.Or(s.pc[w] == NEED_POP, s.pc[w] == WAITING, s.pc[w] == DONE, s.pc[w] == DROPPING), s.L[w] == 0),
                  z3.Implies(s.pc[w] == HAVE_WORK, s.L[w] >= 1),
                  # while the market is open nobody has left
                  z3.Implies(s.mk.open, z3.And(s.pc[w] != DONE, z3.Not(s.stop_req) if False else True))]
        for i, sl in enumerate(s.mk.slots):
            c += [sl >= 0, sl <= self.lmax]
            # batches in the market are never empty (except an empty initial push)
            c.append(z3.Implies(z3.And(self.P0 > 0, s.mk.n > i), sl >= 1))
        # the last-worker rule never closed the market while work existed, and a market that is
        # closed although nobody asked to stop means every worker is idle (quiescence)
        c.append(z3.Not(s.qclose_bad))
        for w in range(self.T):
            # a worker leaves an OPEN market only for a stop reason
            c.append(z3.Implies(z3.And(s.mk.open, s.pc[w] == DROPPING), s.stop_req))
        c.append(z3.Implies(z3.And(z3.Not(s.mk.open), z3.Not(s.stop_req)), z3.And(*[z3.And(s.pc[w] != HAVE_WORK, s.pc[w] != AFTER_WORK) for w in range(self.T)])))
        return z3.And(*c)
