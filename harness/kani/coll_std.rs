//! Container types as seen by the harnesses: the real std containers (native replay on pristine sources).
pub use std::collections::*;
