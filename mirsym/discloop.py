"""What one job of `check_block` (bfs.rs / dfs.rs) does with properties, eventually-bits, the visited
set and the boundary -- the step obligations behind C01, C02, C03 and C11, from the MIR.

Same exploration as blockloop.py (one round of the main loop, symbolic job, every callee arbitrary,
inner loops havocked: exit path + one body iteration from an arbitrary loop state).  A round falls
into segments, delimited by calls that happen once per segment:
   P  one iteration of the property loop          (after the first `properties.iter()`)
   S  one iteration of the successor loop         (after `model.actions(..)`)
   T  one iteration of the terminal-state loop    (after the second `properties.iter()`)
Property conditions are calls through function pointers returning bool: their verdict is a fresh
z3 Bool, the `Expectation` discriminant a fresh z3 Int constrained by the path's switch arms, the
verdicts of `contains_key`, `IdSet::contains`, `within_boundary`, `DashSet::insert` fresh Bools.
Object identity is provenance: every arbitrary value is its own opaque object, `Clone::clone`
returns the object it was handed (value semantics), so "the state the condition was evaluated on
is the popped job's state" is equality of opaque objects.

Obligations (z3, per path; tag = property the obligation belongs to):
  P-eval     [C02] a property is skipped (no condition call) only if it already has a discovery
  P-polarity [C03] an always/sometimes discovery is recorded only after the condition was evaluated
             on the job's own state, with verdict false for Always / true for Sometimes, under the
             name of that property, with the job's fingerprint(s)
  P-complete [C02] Always with verdict false / Sometimes with verdict true records a discovery
  P-await    [C02] an iteration that leaves its property without a discovery sets the
             awaiting flag; the flag is never reset inside the loop; the round returns before
             generating successors only if the flag is false
  P-clear    [C11] an eventually-bit is cleared only after the condition held on the job's own state,
             in the job's own bit set, for an Eventually property
  P-clearall [C11] Eventually with verdict true clears the bit
  S-boundary [C01] a successor is queued only after `within_boundary` held for that very state
  S-dedup    [C01] a successor is queued only after it was newly inserted into the visited set
  S-complete [C01] an in-boundary successor that was newly inserted is queued; an in-boundary
             successor is always looked up in the visited set
  S-terminal [C11] an iteration that saw an in-boundary successor leaves `is_terminal` false, and
             the flag is never set inside the loop
  S-inherit  [C11] a queued successor carries a clone of the job's (updated) bit set
  T-terminal [C03] an eventually discovery is recorded only when `is_terminal` is true, the bit is
             still set in the job's own bit set, with the job's fingerprint(s)
  T-accurate [C03] ... and only if the bit is accurate: either the property loop never skips an
             Eventually property (bits always maintained), or the discovery is guarded by "the
             property has no discovery yet"
  T-complete [C11] a terminal state whose bit is still set (and, where guarded, without discovery)
             records a discovery; a terminal job enters the terminal-state loop
"""
import re
import z3

from mir import Unsupported
from symex import I, B, UNIT
from workerloop import _check
from blockloop import BlockExecutor, explore


def expectation_order(lib_rs):
    m = re.search(r"pub enum Expectation \{(.*?)\n\}", lib_rs, re.S)
    if not m:
        raise Unsupported("enum Expectation not found in src/lib.rs")
    names = re.findall(r"^\s*([A-Z]\w+),?\s*$", m.group(1), re.M)
    if sorted(names) != ["Always", "Eventually", "Sometimes"]:
        raise Unsupported(f"unexpected variants of Expectation: {names}")
    return {n: i for i, n in enumerate(names)}


class DiscExecutor(BlockExecutor):
    exp_locals = frozenset()
    term_local = None
    await_local = None

    def write(self, st, place, v):
        if not st.frames and place.local in self.exp_locals and not place.proj and v[0] == "int":
            st.events.append(("expectation", v[1]))
        return super().write(st, place, v)

    def eval_rv(self, st, rv):
        v = super().eval_rv(st, rv)
        if rv[0] == "discr" and not st.frames and v[0] == "int":
            try:
                src = st.heap[self.cell_of(st, rv[1])]
            except Exception:  # noqa: BLE001
                src = None
            if src is not None and src[0] == "opaque":
                st.events.append(("discr_of", src, v[1]))
        return v

    def apply_havoc(self, st, body, locals_):
        hit = [bb for bb, ls in (self.loop_havoc or {}).items() if ls is locals_]
        r = super().apply_havoc(st, body, locals_)
        for bb in hit:
            vals = []
            for l in (self.term_local, self.await_local):
                c = st.locals.get(l)
                v = st.heap.get(c) if c is not None else None
                vals.append(v[1] if v and v[0] == "bool" else None)
            st.events.append(("loop", bb, vals[0], vals[1]))
        return r

    def call(self, st, body, t):
        f = t.args["func"]
        args = [self.read(st, a) for a in t.args["args"]]
        dst = t.args["dst"]
        dst_ty = body.locals_ty.get(dst.local) if dst is not None and not dst.proj else None
        tcs = [self._target_cell(st, a) for a in args]
        tv = tuple(v for _, v in tcs)
        if re.match(r"^(move|copy) _\d+$", f):
            if (dst_ty or "").strip() == "bool":
                b = self.fresh_bool("cond")
                st.events.append(("condition", b, tv))
                return B(b)
            st.events.append(("fnptr",))
            return self._fresh_by_type(st, dst_ty, "fnptr")
        mi = re.match(r"^<(.*) as Iterator>::next$", f)
        if mi and not st.frames:
            ty = mi.group(1)
            if re.match(r"^Enumerate<", ty):
                st.events.append(("enum_next", bool(re.match(r"^Enumerate<std::slice::Iter<'_, Property<M>>>$", ty)), ty))
            r = super().call(st, body, t)
            if isinstance(r, tuple) and r and r[0] == "opaque":
                st.events.append(("iter_next", r, ty))
            return r
        if re.search(r"DashMap::<&str, .*>::contains_key::<", f):
            b = self.fresh_bool("discovered")
            st.events.append(("contains_key", b, tv[1:]))
            return B(b)
        if re.search(r"DashMap::<&str, .*>::insert$", f):
            st.events.append(("discover", args[2] if len(args) > 2 else None, args[1] if len(args) > 1 else None))
            return ("opaque", "old")
        if re.search(r"IdSet::contains$", f):
            b = self.fresh_bool("ebit")
            st.events.append(("ebits_contains", b, tv[0]))
            return B(b)
        if re.search(r"IdSet::(remove|insert|clear)$", f):
            st.events.append(("ebits_" + f.rsplit("::", 1)[1], tv[0]))
            return self._fresh_by_type(st, dst_ty, "idset")
        if re.search(r" as Clone>::clone$", f) and tv and tv[0][0] == "opaque":
            return tv[0]  # value semantics: the clone is the value that was cloned
        if re.search(r"<M as Model>::within_boundary$", f):
            b = self.fresh_bool("wb")
            st.events.append(("within_boundary", b, tv[-1]))
            return B(b)
        if re.search(r"DashSet::<.*>::insert$", f):
            b = self.fresh_bool("newly")
            st.events.append(("gen_insert", b))
            return B(b)
        if re.search(r"DashMap::<NonZero<u64>, .*>::entry$", f):
            st.events.append(("gen_entry",))
            return self._fresh_by_type(st, dst_ty, "entry")
        if re.search(r"VacantEntry::<.*>::insert$", f):
            st.events.append(("gen_vacant",))
            return super().call(st, body, t)
        # on_demand.rs: a block of jobs is drained from the shared queue into a local Vec and popped from there
        if re.search(r"VecDeque::<.*>::drain::<", f) and tcs and tcs[0][1][0] == "deque":
            x = self.fresh_int("left")
            st.pc.append(x >= 0)
            st.heap[tcs[0][0]] = ("deque", x)
            return ("opaque", f"drain#{next(self.fresh)}")
        if re.search(r" as Iterator>::collect::<Vec<\(", f) and "IdSet" in f:
            x = self.fresh_int("local_jobs")
            st.pc.append(x >= 0)
            return ("deque", x)
        if re.search(r"^Vec::<\(.*IdSet.*\)>::pop$", f) and tcs and tcs[0][1][0] == "deque":
            c, v = tcs[0]
            job, d = self._job(st)
            st.events.append(("pop_job", d, "pop", tuple(st.heap[c2] for _, c2 in job[1])))
            st.events.append(("pop_some", v[1] > 0))
            st.heap[c] = ("deque", z3.If(v[1] > 0, v[1] - 1, 0))
            return ("opt", v[1] > 0, st.alloc(job))
        mq = re.search(r"VecDeque::<.*>::(push_back|push_front)$", f)
        if mq and args[1][0] == "struct":
            st.events.append(("push_tuple", tuple(st.heap[c] for _, c in sorted(args[1][1], key=lambda kv: kv[0]))))
            return super().call(st, body, t)
        return super().call(st, body, t)


def _segments(events):
    """[(kind, [events])]: kind in pre, P, S, T"""
    segs = [("pre", [])]
    n_iter = 0
    for e in events:
        if e[0] == "properties_iter":
            n_iter += 1
            segs.append(("P" if n_iter == 1 else "T", []))
            continue
        if e[0] == "actions":
            segs.append(("S", []))
            continue
        segs[-1][1].append(e)
    return segs


def _val_at_end(st, local):
    c = st.locals.get(local)
    if c is None:
        return None
    v = st.heap.get(c)
    return v[1] if v and v[0] == "bool" else None


def obligations(name, text, lib_rs, helpers=None):
    order = expectation_order(lib_rs)
    A, E, S_ = order["Always"], order["Eventually"], order["Sometimes"]
    exp_locals = frozenset(int(x) for x in re.findall(r"_(\d+) = discriminant\(\([^;]*: Expectation\)\);", text))
    if not exp_locals:
        raise Unsupported(f"{name} check_block: no match on a property's Expectation found")

    class Ex(DiscExecutor):
        pass
    Ex.exp_locals = exp_locals
    Ex.term_local = int(re.search(r"debug is_terminal => _(\d+);", text).group(1)) if re.search(r"debug is_terminal => _(\d+);", text) else None
    Ex.await_local = int(re.search(r"debug is_awaiting_discoveries => _(\d+);", text).group(1)) if re.search(r"debug is_awaiting_discoveries => _(\d+);", text) else None
    X = explore(name, text, helpers, cls=Ex, precise_loops=True, allow_no_limit=(name == "on_demand"))
    ex, body, outs, base, loops, outer, dbg = X["ex"], X["body"], X["outs"], X["base"], X["loops"], X["outer"], X["dbg"]
    for need in ("is_terminal", "is_awaiting_discoveries"):
        if need not in dbg:
            raise Unsupported(f"{name} check_block: local `{need}` not found (renamed?) -- the flag obligations cannot be stated")
    L_term, L_await = dbg["is_terminal"], dbg["is_awaiting_discoveries"]
    res = []

    def add(tag, ob, r, **kw):
        res.append({"obligation": f"{name} check_block: {ob}", "tag": tag, "result": "unsat" if r == z3.unsat else ("sat" if r == z3.sat else str(r)), **kw})

    def must(tag, ob, g, *negated_goal, structural_ok=None):
        """discharged iff base /\\ g /\\ negated_goal is unsat (structural_ok: decided without a query)"""
        if structural_ok is True:
            add(tag, ob, z3.unsat)
            return
        if structural_ok is False:
            r, _ = _check(base, g)
            add(tag, ob, r)
            return
        r, _ = _check(base, g, *negated_goal)
        add(tag, ob, r)

    # --- structural: where the two flags are assigned constants
    inner = {h: blks for h, blks in loops.items() if h != outer}

    def const_assignments(local, value):
        where = set()
        for n, blk in body.blocks.items():
            if getattr(blk, "cleanup", False):
                continue
            for a in blk.stmts:
                if a.dst.local == local and not a.dst.proj and a.rv[0] == "use" and a.rv[1].kind == "const" and a.rv[1].const == (value, "bool"):
                    where.add(n)
        return where

    try:
        t_true = const_assignments(L_term, True)
        a_false = const_assignments(L_await, False)
    except Exception as e:  # noqa: BLE001
        raise Unsupported(f"{name} check_block: cannot read the constant assignments of the flags ({e})")
    in_inner = set().union(*inner.values()) if inner else set()
    add("C03,C11", "S-terminal: `is_terminal` is set to true only before the successor loop, never inside an inner loop", z3.unsat if not (t_true & in_inner) and t_true else z3.sat)
    add("C02,C01", "P-await: the awaiting flag is reset only before the property loop, never inside an inner loop", z3.unsat if not (a_false & in_inner) and a_false else z3.sat)

    # --- does the property loop ever skip an Eventually property? (decides which form T-accurate takes)
    bits_always_maintained = True
    n = {"P": 0, "S": 0, "T": 0, "disc_P": 0, "disc_T": 0, "clear": 0, "push": 0}
    per_path = []
    for i, o in enumerate(outs):
        if o.kind == "panic":
            continue
        st = o.st
        pops = [e for e in st.events if e[0] == "pop_job"]
        if not pops:
            continue
        g = z3.And(*st.pc) if st.pc else z3.BoolVal(True)
        r, _ = _check(base, g)
        if r != z3.sat:
            continue
        segs = _segments(st.events)
        per_path.append((i, o, st, g, pops[0], segs))
        for kind, evs in segs:
            if kind != "P":
                continue
            cks = [e for e in evs if e[0] == "contains_key"]
            conds = [e for e in evs if e[0] == "condition"]
            exps = [e for e in evs if e[0] == "expectation"]
            if cks and not conds:
                k_ok = [exps[0][1] == E] if exps else []
                r, _ = _check(base, g, cks[0][1], *k_ok)
                if r != z3.unsat:
                    bits_always_maintained = False

    for i, o, st, g, pop, segs in per_path:
        job = pop[3]  # component values of the popped job
        tagp = f"path {i} [" + ",".join(e[0] for e in st.events if e[0] not in ("pop_some", "loop", "iter_next", "discr_of")) + f"]->{o.kind}"
        is_job = lambda v: any(v == comp for comp in job)  # noqa: E731
        kinds = [k for k, _ in segs]
        for si, (kind, evs) in enumerate(segs):
            names = [e[0] for e in evs]
            lps = [e[1] for e in evs if e[0] == "loop"]
            # the iteration of this segment's loop ran to its end (a cut at a nested loop's head leaves it unfinished)
            complete = not (si == len(segs) - 1 and o.kind == "cut" and (not lps or o.info.get("bb") != lps[0]))
            at_head = si == len(segs) - 1 and o.kind == "cut" and bool(lps) and o.info.get("bb") == lps[0]
            if kind == "P":
                ran = any(x in names for x in ("expectation", "contains_key", "condition", "discover", "ebits_remove"))
                if not ran:
                    continue
                n["P"] += 1
                cks = [e for e in evs if e[0] == "contains_key"]
                conds = [e for e in evs if e[0] == "condition"]
                exps = [e for e in evs if e[0] == "expectation"]
                discs = [e for e in evs if e[0] == "discover"]
                clears = [e for e in evs if e[0] == "ebits_remove"]
                if len(conds) > 1 or len(cks) > 1 or len(discs) > 1 or len(exps) > 1:
                    raise Unsupported(f"{name} check_block: a property-loop iteration with several condition calls / lookups ({names})")
                if "ebits_insert" in names or "ebits_clear" in names:
                    must("C11,C03", f"{tagp}: P-clear: the property loop only ever removes bits from the job's bit set", g, structural_ok=False)
                K = exps[0][1] if exps else None
                c = conds[0][1] if conds else None
                if not conds:
                    # skipped: only because it already has a discovery
                    must("C02", f"{tagp}: P-eval: a property is skipped (condition not evaluated) only if it already has a discovery", g,
                         *( [z3.Not(cks[0][1])] if cks else [] ))
                else:
                    must("C03,C02", f"{tagp}: P-polarity: the condition is evaluated on the state of the job being evaluated", g, structural_ok=any(is_job(v) for v in conds[0][2]))
                for dsc in discs:
                    n["disc_P"] += 1
                    if c is None or K is None:
                        must("C03,C02", f"{tagp}: P-polarity: a discovery is recorded only after the property's condition was evaluated", g, structural_ok=False)
                        continue
                    must("C03,C02", f"{tagp}: P-polarity: an always/sometimes discovery is recorded only on verdict false for Always / true for Sometimes", g,
                         z3.Not(z3.Or(z3.And(K == A, z3.Not(c)), z3.And(K == S_, c))))
                    must("C03,C02", f"{tagp}: P-polarity: the discovery carries the fingerprint(s) of the job being evaluated", g, structural_ok=is_job(dsc[1]))
                    if cks:
                        must("C03,C02", f"{tagp}: P-polarity: the discovery is recorded under the name of the property that was evaluated", g, structural_ok=(dsc[2] in cks[0][2]))
                if c is not None and K is not None and not discs and complete:
                    must("C02", f"{tagp}: P-complete: Always with verdict false / Sometimes with verdict true records a discovery", g,
                         z3.Or(z3.And(K == A, z3.Not(c)), z3.And(K == S_, c)))
                for cl in clears:
                    n["clear"] += 1
                    if c is None or K is None:
                        must("C11,C03", f"{tagp}: P-clear: a bit is cleared only after the property's condition was evaluated", g, structural_ok=False)
                        continue
                    must("C11,C03", f"{tagp}: P-clear: an eventually-bit is cleared only for an Eventually property whose condition held on this state", g, z3.Not(z3.And(K == E, c)))
                    must("C11,C03", f"{tagp}: P-clear: the bit is cleared in the bit set of the job being evaluated", g, structural_ok=is_job(cl[1]))
                    must("C11,C03", f"{tagp}: P-index: the bit index is the property's position in the full property list ({_index_source(evs)[1]})", g, structural_ok=_index_source(evs)[0])
                if c is not None and K is not None and not clears and complete:
                    must("C11,C03", f"{tagp}: P-clearall: Eventually with verdict true clears the bit", g, K == E, c)
                if at_head:
                    aw = _val_at_end(st, L_await)
                    if aw is None:
                        raise Unsupported(f"{name} check_block: awaiting flag is not a boolean at the end of a property-loop iteration")
                    hv = next((e[3] for e in evs if e[0] == "loop"), None)
                    if hv is not None:
                        must("C02,C01", f"{tagp}: P-await: an iteration never takes the awaiting flag back (a flag set for an earlier property survives)", g, hv, z3.Not(aw))
                    if not discs:
                        must("C02,C01", f"{tagp}: P-await: an iteration that leaves its property without a discovery sets the awaiting flag", g,
                             *( [z3.Not(cks[0][1])] if cks else [] ), z3.Not(aw))
            elif kind == "S":
                wbs = [e for e in evs if e[0] == "within_boundary"]
                pushes = [e for e in evs if e[0] == "push_tuple"]
                gins = [e for e in evs if e[0] == "gen_insert"]
                vac = [e for e in evs if e[0] == "gen_vacant"]
                ent = [e for e in evs if e[0] == "gen_entry"]
                if not (wbs or pushes or gins or vac or ent):
                    continue
                n["S"] += 1
                for k, e in enumerate(evs):
                    if e[0] in ("gen_insert", "gen_entry", "gen_vacant"):
                        before = [x for x in evs[:k] if x[0] == "within_boundary"]
                        if not before:
                            must("C01,C02", f"{tagp}: S-visited: the visited set is consulted/extended only for a successor that passed the boundary test", g, structural_ok=False)
                        else:
                            must("C01,C02", f"{tagp}: S-visited: the visited set is consulted/extended only for a successor that passed the boundary test", g, z3.Not(before[-1][1]))
                        break
                if len(wbs) > 1 or len(pushes) > 1:
                    raise Unsupported(f"{name} check_block: a successor-loop iteration with several boundary tests / pushes")
                for pu in pushes:
                    n["push"] += 1
                    if not wbs:
                        must("C01,C02,C03", f"{tagp}: S-boundary: a successor is queued only after the boundary test", g, structural_ok=False)
                    else:
                        must("C01,C02,C03", f"{tagp}: S-boundary: a successor is queued only if `within_boundary` held", g, z3.Not(wbs[0][1]))
                        must("C01,C02,C03", f"{tagp}: S-boundary: the state queued is the state the boundary test was applied to", g, structural_ok=any(wbs[0][2] == comp for comp in pu[1]))
                    if vac:
                        must("C01,C02", f"{tagp}: S-dedup: a successor is queued only after it was newly inserted into the visited set", g, structural_ok=True)
                    elif gins:
                        must("C01,C02", f"{tagp}: S-dedup: a successor is queued only after it was newly inserted into the visited set", g, z3.Not(z3.Or(*[e[1] for e in gins])))
                    else:
                        must("C01,C02", f"{tagp}: S-dedup: a successor is queued only after it was newly inserted into the visited set", g, structural_ok=False)
                    must("C11,C03", f"{tagp}: S-inherit: a queued successor carries a clone of the bit set of the job being evaluated", g,
                         structural_ok=any(comp == job[_ebits_idx(ex)] for comp in pu[1]))
                if wbs and not pushes and complete:
                    if vac:
                        must("C01,C02", f"{tagp}: S-complete: an in-boundary successor that was newly inserted into the visited set is queued", g, wbs[0][1])
                    elif gins:
                        must("C01,C02", f"{tagp}: S-complete: an in-boundary successor that was newly inserted into the visited set is queued", g, wbs[0][1], z3.And(*[e[1] for e in gins]))
                    elif not ent:
                        must("C01,C02", f"{tagp}: S-complete: an in-boundary successor is looked up in the visited set", g, wbs[0][1])
                if at_head:
                    tv = _val_at_end(st, L_term)
                    hv = next((e[2] for e in evs if e[0] == "loop"), None)
                    if tv is not None and hv is not None:
                        must("C11", f"{tagp}: S-terminal: an iteration that saw no in-boundary successor leaves `is_terminal` as it was", g, *[z3.Not(e[1]) for e in wbs], tv != hv)
                if at_head and wbs:
                    tv = _val_at_end(st, L_term)
                    if tv is None:
                        raise Unsupported(f"{name} check_block: is_terminal is not a boolean at the end of a successor-loop iteration")
                    must("C03,C11", f"{tagp}: S-terminal: an iteration that saw an in-boundary successor leaves `is_terminal` false", g, wbs[0][1], tv)
            elif kind == "T":
                n["T"] += 1
                ecs = [e for e in evs if e[0] == "ebits_contains"]
                cks = [e for e in evs if e[0] == "contains_key"]
                discs = [e for e in evs if e[0] == "discover"]
                tv = _val_at_end(st, L_term)
                if tv is None:
                    raise Unsupported(f"{name} check_block: is_terminal is not a boolean in the terminal-state block")
                must("C03,C11", f"{tagp}: T-terminal: the terminal-state loop runs only when `is_terminal` is true", g, z3.Not(tv))
                for dsc in discs:
                    n["disc_T"] += 1
                    if not ecs:
                        must("C03,C11", f"{tagp}: T-terminal: an eventually discovery is recorded only after the bit was looked up", g, structural_ok=False)
                        continue
                    must("C03,C11", f"{tagp}: T-terminal: an eventually discovery is recorded only while the bit is still set", g, z3.Not(ecs[0][1]))
                    must("C03,C11", f"{tagp}: T-terminal: the bit is looked up in the bit set of the job being evaluated", g, structural_ok=is_job(ecs[0][2]))
                    must("C03,C11", f"{tagp}: T-index: the bit index is the property's position in the full property list ({_index_source(evs)[1]})", g, structural_ok=_index_source(evs)[0])
                    must("C03,C11", f"{tagp}: T-terminal: the discovery carries the fingerprint(s) of the job being evaluated", g, structural_ok=is_job(dsc[1]))
                    if bits_always_maintained:
                        must("C03,C11", f"{tagp}: T-accurate: bits are maintained for every Eventually property on every path (the property loop never skips one)", g, structural_ok=True)
                    elif cks and dsc[2] in cks[0][2]:
                        must("C03,C11", f"{tagp}: T-accurate: the property loop skips properties that have a discovery (their bits go stale), so an eventually discovery is recorded only while the property has none yet", g, cks[0][1])
                    else:
                        must("C03,C11", f"{tagp}: T-accurate: the property loop skips properties that have a discovery (their bits go stale), so an eventually discovery is recorded only while the property has none yet", g, structural_ok=False)
                if ecs and not discs and complete:
                    must("C11", f"{tagp}: T-complete: a terminal state whose bit is still set (property without discovery) records a counterexample", g, ecs[0][1], *[z3.Not(e[1]) for e in cks])
        # the round as a whole
        if "T" in kinds:
            must("C03,C11", f"{tagp}: T-terminal: the terminal-state loop runs only after the successors of the state were generated (`model.actions` was called)", g, structural_ok=("S" in kinds and kinds.index("S") < kinds.index("T")))
        for si, (kind, evs) in enumerate(segs):
            if kind != "S":
                continue
            left = si < len(segs) - 1 or o.kind in ("return", "reach")
            nx = [e for e in evs if e[0] == "iter_next"]
            if left and nx:
                last = nx[-1][1]
                ds = [e for e in evs if e[0] == "discr_of" and e[1] == last]
                if not ds:
                    raise Unsupported(f"{name} check_block: the successor loop is left without testing the iterator's result")
                must("C01,C02", f"{tagp}: S-exhaust: the successor loop is left only when its iterator is exhausted (next() returned None), so every enabled action is tried", g, ds[-1][2] != 0)
        if "P" in kinds and "S" not in kinds and o.kind in ("return", "reach"):
            aw = _val_at_end(st, L_await)
            if aw is not None:
                must("C02,C01", f"{tagp}: P-await: the round ends without generating successors only if no property is awaiting a discovery", g, aw)
        if "S" in kinds and "T" not in kinds and o.kind in ("return", "reach"):
            tv = _val_at_end(st, L_term)
            if tv is not None:
                must("C11", f"{tagp}: T-complete: a job that is terminal enters the terminal-state loop", g, tv)
    if min(n["P"], n["S"], n["T"], n["disc_P"], n["disc_T"], n["clear"], n["push"]) == 0:
        raise Unsupported(f"{name} check_block: shape not recognised {n}")
    info = {"function": body.name, "blocks": len(body.blocks), "round_paths": len(outs), "segments_seen": n,
            "bits_always_maintained": bits_always_maintained, "expectation_variant_order": order,
            "inner_loops_havocked": [f"bb{h}" for h in X["heads"] if h != outer], "z3_feasibility_queries": ex.queries}
    return res, info


def _index_source(evs):
    """(ok, description): where the (index, property) pair of this iteration came from"""
    nx = [e for e in evs if e[0] == "enum_next"]
    if not nx:
        raise Unsupported("the index used with the eventually-bits does not come from an enumerate() over the properties (not modelled)")
    return all(e[1] for e in nx), "; ".join(sorted({e[2] for e in nx}))[:120]


def _ebits_idx(ex):
    idx = [i for i, t in enumerate(ex.job_types) if "IdSet" in t or "EventuallyBits" in t]
    if len(idx) != 1:
        raise Unsupported(f"cannot identify the eventually-bits component of a job in {ex.job_types}")
    return idx[0]


# ---- spawn(): the initial eventually-bits and the boundary filter on the initial states ------------------------------------
def spawn_obligations(name, mir_text, lib_rs):
    """I-bits   [C03,C11] spawn() sets bit i exactly for the Eventually properties, i = position in the full property list
       I-filter [C01,C02,C03] the initial states are filtered by `within_boundary` (the filter closure returns the verdict
                of within_boundary on its own argument)"""
    from mir import parse_body, split_functions
    from symex import Executor, State
    from spawnflow import SpawnExecutor
    from blockloop import natural_loops_by_dominators, _assigned
    order = expectation_order(lib_rs)
    E = order["Eventually"]
    text = None
    closures = []
    for f in split_functions(mir_text):
        hdr = f.split("\n", 1)[0]
        if re.match(rf"^fn (?:checker::)?{name}::<impl at src/checker/{name}\.rs[^>]*>::spawn\(", hdr):
            text = f
        elif re.match(rf"^fn (?:checker::)?{name}::<impl at src/checker/{name}\.rs[^>]*>::spawn::\{{closure#\d+\}}\(", hdr) and "<M as Model>::within_boundary" in f:
            closures.append(f)
    if text is None:
        raise Unsupported(f"{name}: spawn() not found in the MIR")

    class SpawnDisc(DiscExecutor, SpawnExecutor):
        pass
    SpawnDisc.exp_locals = frozenset(int(x) for x in re.findall(r"_(\d+) = discriminant\(\([^;]*: Expectation\)\);", text))
    SpawnDisc.term_local = SpawnDisc.await_local = None
    if not SpawnDisc.exp_locals:
        raise Unsupported(f"{name} spawn: no test of a property's Expectation found (where are the initial eventually-bits set?)")
    body = parse_body(text)
    ex = SpawnDisc({Executor.short(body): body})
    ex.job_types, ex.depth_idx = [], None
    loops = natural_loops_by_dominators(body)
    ex.loop_havoc = {h: _assigned(body, blks) for h, blks in loops.items()}
    ex.stop_blocks = set()
    st = State()
    st.locals[body.params[0]] = st.alloc(("opaque", "options"))
    outs = ex.run(body, st, 0)
    res = []

    def add(tag, ob, r):
        res.append({"obligation": f"{name} spawn: {ob}", "tag": tag, "result": "unsat" if r == z3.unsat else ("sat" if r == z3.sat else str(r))})

    n_ins = n_iter = 0
    for i, o in enumerate(outs):
        if o.kind == "panic":
            continue
        g = z3.And(*o.st.pc) if o.st.pc else z3.BoolVal(True)
        if _check([], g)[0] != z3.sat:
            continue
        evs = o.st.events
        # iterations: from an enum_next event to the next `loop` event / end of path
        k = 0
        while k < len(evs):
            if evs[k][0] != "enum_next":
                k += 1
                continue
            j = k + 1
            while j < len(evs) and evs[j][0] not in ("enum_next", "loop"):
                j += 1
            it = evs[k:j]
            exps = [e for e in it if e[0] == "expectation"]
            ins = [e for e in it if e[0] == "ebits_insert"]
            heads = [e[1] for e in evs[:k] if e[0] == "loop"]
            finished = not (j == len(evs) and o.kind == "cut" and (not heads or o.info.get("bb") != heads[-1]))
            tagp = f"path {i}"
            for _ in ins:
                n_ins += 1
                if not exps:
                    add("C03,C11", f"{tagp}: I-bits: an initial eventually-bit is set only after the property's kind was tested", _check([], g)[0])
                else:
                    add("C03,C11", f"{tagp}: I-bits: an initial eventually-bit is set only for an Eventually property", _check([], g, exps[0][1] != E)[0])
                add("C03,C11", f"{tagp}: I-bits: the bit index is the property's position in the full property list ({evs[k][2][:80]})", z3.unsat if evs[k][1] else _check([], g)[0])
            if exps and not ins and finished:
                n_iter += 1
                add("C03,C11", f"{tagp}: I-bits: every Eventually property gets its initial bit", _check([], g, exps[0][1] == E)[0])
            k = j
    if n_ins == 0 or n_iter == 0:
        raise Unsupported(f"{name} spawn: the loop that sets the initial eventually-bits was not recognised (inserts {n_ins}, plain iterations {n_iter})")
    # every initial state enters the visited set before the workers start
    ins = [(i, o) for i, o in enumerate(outs) if o.kind != "panic" and any(e[0] in ("gen_insert", "generated_write") for e in o.st.events)]
    add("C01,C02", "I-visited: the fingerprints of the initial states are inserted into the visited set (an insert into `generated` happens in spawn())", z3.unsat if ins else z3.sat)
    for i, o in ins:
        evs = [e[0] for e in o.st.events]
        k = min(k for k, e in enumerate(evs) if e in ("gen_insert", "generated_write"))
        if "spawn_worker" in evs:
            add("C01,C02", f"path {i}: I-visited: the visited set is seeded before any worker is started", z3.unsat if k < evs.index("spawn_worker") else z3.sat)
    # the boundary filter on the initial states
    inline = any(e[0] == "within_boundary" for o in outs for e in o.st.events)
    if not closures and not inline:
        add("C01,C02,C03", "I-filter: the initial states are filtered by `within_boundary` (no boundary test found in spawn() or its closures)", z3.sat)
    for f in closures:
        cb = parse_body(f)
        cx = DiscExecutor({Executor.short(cb): cb})
        cx.job_types, cx.depth_idx = [], None
        cx.loop_havoc, cx.stop_blocks = {}, set()
        s2 = State()
        argv = ("opaque", "candidate-initial-state")
        for pi, pno in enumerate(cb.params):
            s2.locals[pno] = s2.alloc(("ref", s2.alloc(("opaque", "env"))) if pi == 0 else ("ref", s2.alloc(("ref", s2.alloc(argv)))))
        ret_ty = f.split("\n", 1)[0].rsplit(" -> ", 1)[-1].rstrip(" {").strip()
        if ret_ty != "bool":
            continue  # not a filter predicate (e.g. a map closure that happens to test the boundary)
        for i, o in enumerate(cx.run(cb, s2, 0)):
            if o.kind != "return":
                continue
            g = z3.And(*o.st.pc) if o.st.pc else z3.BoolVal(True)
            wbs = [e for e in o.st.events if e[0] == "within_boundary"]
            rv = o.info.get("ret")
            if not wbs or rv is None or rv[0] != "bool":
                add("C01,C02,C03", f"I-filter: filter closure path {i}: an initial state is kept only after the boundary test", _check([], g)[0])
                continue
            add("C01,C02,C03", f"I-filter: filter closure path {i}: an initial state is kept exactly when `within_boundary` holds for it", _check([], g, rv[1] != wbs[0][1])[0])
            add("C01,C02,C03", f"I-filter: filter closure path {i}: the boundary test is applied to the candidate state itself", z3.unsat if wbs[0][2] == argv else _check([], g)[0])
    info = {"function": body.name, "blocks": len(body.blocks), "paths": len(outs), "filter_closures": len(closures), "loops_havocked": [f"bb{h}" for h in sorted(loops)]}
    return res, info


# ---- Checker::assert_properties / assert_no_discovery / assert_any_discovery (src/checker.rs) ---------------------------------
class AssertExecutor(DiscExecutor):
    def call(self, st, body, t):
        f = t.args["func"]
        if not st.frames:
            args = [self.read(st, a) for a in t.args["args"]]
            tv = tuple(self._target_cell(st, a)[1] for a in args)
            m = re.search(r"<Self as checker::Checker<M>>::(\w+)$", f)
            if m and m.group(1) == "discovery":
                b = self.fresh_bool("found")
                st.events.append(("discovery", tv[1] if len(tv) > 1 else None, b))
                return ("opt", b, st.alloc(("opaque", f"path#{next(self.fresh)}")))
            if m and m.group(1) == "is_done":
                b = self.fresh_bool("done")
                st.events.append(("is_done", b))
                return B(b)
            if m and m.group(1) in ("assert_any_discovery", "assert_no_discovery"):
                st.events.append((m.group(1), tv[1] if len(tv) > 1 else None))
                return self._fresh_by_type(st, None, "asserted")
        return super().call(st, body, t)


def assert_obligations(mir_text, lib_rs):
    """A-kind  [C02] assert_properties asserts "no discovery" for every Always/Eventually property and "some discovery" for
                     every Sometimes property, and leaves its loop only when the property list is exhausted
       A-no    [C02] assert_no_discovery(name) returns only if discovery(name) is None and is_done() is true
       A-any   [C02] assert_any_discovery(name) returns only if discovery(name) is Some"""
    from mir import parse_body, split_functions
    from symex import Executor, State
    from blockloop import natural_loops_by_dominators, _assigned
    order = expectation_order(lib_rs)
    A, E, S_ = order["Always"], order["Eventually"], order["Sometimes"]
    fns = {}
    for f in split_functions(mir_text):
        m = re.match(r"^fn checker::Checker::(assert_properties|assert_any_discovery|assert_no_discovery)\(", f.split("\n", 1)[0])
        if m:
            fns[m.group(1)] = f
    if len(fns) != 3:
        raise Unsupported(f"Checker::assert_* not found in the MIR (found {sorted(fns)})")
    res = []

    def add(ob, r):
        res.append({"obligation": f"checker.rs {ob}", "tag": "C02", "result": "unsat" if r == z3.unsat else ("sat" if r == z3.sat else str(r))})

    def run(fname):
        text = fns[fname]

        class Ex(AssertExecutor):
            pass
        Ex.exp_locals = frozenset(int(x) for x in re.findall(r"_(\d+) = discriminant\(\([^;]*: Expectation\)\);", text))
        body = parse_body(text)
        ex = Ex({Executor.short(body): body})
        ex.job_types, ex.depth_idx = [], None
        loops = natural_loops_by_dominators(body)
        ex.loop_havoc = {h: _assigned(body, blks) for h, blks in loops.items()}
        ex.stop_blocks = set()
        st = State()
        pv = {}
        for pi, pno in enumerate(body.params):
            pv[pi] = ("opaque", f"param{pi}")
            st.locals[pno] = st.alloc(("ref", st.alloc(pv[pi])))
        return body, ex.run(body, st, 0), pv

    n = {"ret_no": 0, "ret_any": 0, "iter": 0, "exit": 0}
    for fname, want_found in (("assert_no_discovery", False), ("assert_any_discovery", True)):
        body, outs, pv = run(fname)
        for i, o in enumerate(outs):
            if o.kind != "return":
                continue
            g = z3.And(*o.st.pc) if o.st.pc else z3.BoolVal(True)
            if _check([], g)[0] != z3.sat:
                continue
            n["ret_any" if want_found else "ret_no"] += 1
            ds = [e for e in o.st.events if e[0] == "discovery"]
            if not ds:
                add(f"{fname} path {i}: A-{'any' if want_found else 'no'}: returns only after looking the discovery up", _check([], g)[0])
                continue
            add(f"{fname} path {i}: the discovery looked up is the one of the name given", z3.unsat if ds[0][1] == pv[1] else _check([], g)[0])
            if want_found:
                add(f"{fname} path {i}: A-any: returns only if a discovery exists", _check([], g, z3.Not(ds[0][2]))[0])
            else:
                add(f"{fname} path {i}: A-no: returns only if no discovery exists", _check([], g, ds[0][2])[0])
                dn = [e for e in o.st.events if e[0] == "is_done"]
                add(f"{fname} path {i}: A-no: returns only if is_done() is true (absence of a discovery means something only after a completed check)",
                    _check([], g, z3.Not(dn[0][1]))[0] if dn else _check([], g)[0])
    body, outs, pv = run("assert_properties")
    for i, o in enumerate(outs):
        if o.kind == "panic":
            continue
        g = z3.And(*o.st.pc) if o.st.pc else z3.BoolVal(True)
        if _check([], g)[0] != z3.sat:
            continue
        evs = o.st.events
        exps = [e for e in evs if e[0] == "expectation"]
        a_no = [e for e in evs if e[0] == "assert_no_discovery"]
        a_any = [e for e in evs if e[0] == "assert_any_discovery"]
        if o.kind == "cut" and exps:
            n["iter"] += 1
            K = exps[0][1]
            if len(a_no) + len(a_any) != 1:
                add(f"assert_properties path {i}: A-kind: every property is asserted exactly once ({len(a_no)}+{len(a_any)} assertions)", _check([], g)[0])
            if a_no:
                add(f"assert_properties path {i}: A-kind: 'no discovery' is asserted only for Always / Eventually properties", _check([], g, z3.Not(z3.Or(K == A, K == E)))[0])
            if a_any:
                add(f"assert_properties path {i}: A-kind: 'some discovery' is asserted only for Sometimes properties", _check([], g, K != S_)[0])
        if o.kind == "return":
            n["exit"] += 1
            nx = [e for e in evs if e[0] == "iter_next"]
            if not nx:
                add(f"assert_properties path {i}: A-kind: returns only after iterating over the properties", _check([], g)[0])
                continue
            ds = [e for e in evs if e[0] == "discr_of" and e[1] == nx[-1][1]]
            add(f"assert_properties path {i}: A-kind: returns only when the property list is exhausted (every property is asserted)",
                _check([], g, ds[-1][2] != 0)[0] if ds else _check([], g)[0])
    if min(n.values()) == 0:
        raise Unsupported(f"Checker::assert_*: shape not recognised {n}")
    return res, {"functions": [f"checker::Checker::{k}" for k in sorted(fns)], "paths_seen": n}


# ---- simulation.rs: check_trace_from_initial -----------------------------------------------------------------------------------
class SimExecutor(DiscExecutor):
    def apply_havoc(self, st, body, locals_):
        r = super().apply_havoc(st, body, locals_)
        for l in locals_:
            c = st.locals.get(l)
            if c is not None and st.heap.get(c) == ("opaque", "havoc"):
                st.heap[c] = ("opaque", f"havoc:{l}#{next(self.fresh)}")  # distinct objects: identity is compared below
        return r

    def call(self, st, body, t):
        f = t.args["func"]
        if not st.frames:
            if re.search(r"HashSet::<.*>::insert$", f):
                b = self.fresh_bool("first_visit")
                st.events.append(("seen_insert", b))
                return B(b)
            if re.search(r"^Vec::<NonZero<u64>>::push$", f):
                st.events.append(("fp_push",))
            if re.search(r"Vec::<<M as Model>::Action>::is_empty$", f):
                b = self.fresh_bool("no_action_left")
                st.events.append(("actions_empty", b))
                return B(b)
        return super().call(st, body, t)


def sim_obligations(mir_text, lib_rs):
    """One round / one tail iteration of SimulationChecker::check_trace_from_initial, all loops havocked (the trace loop too).
    Same property-loop obligations as check_block (tag C02/C03/C11) on the trace's current state; the tail records an
    eventually discovery only while the bit is set, at the property's own index, guarded by "no discovery yet", and
    (Sim-end) only when the trace ended in a dead end (no action left) or closed a cycle (state seen before in this trace)."""
    from mir import parse_body, split_functions
    from symex import Executor, State
    from blockloop import natural_loops_by_dominators, _assigned
    order = expectation_order(lib_rs)
    A, E, S_ = order["Always"], order["Eventually"], order["Sometimes"]
    text = None
    for f in split_functions(mir_text):
        h = f.split("\n", 1)[0]
        if re.match(r"^fn (?:checker::)?simulation::<impl at src/checker/simulation\.rs[^>]*>::check_trace_from_initial\(", h):
            text = f
    if text is None:
        raise Unsupported("simulation.rs check_trace_from_initial not found in the MIR")
    dbg = {}
    for m in re.finditer(r"debug (\w+) => _(\d+);", text):
        dbg.setdefault(m.group(1), int(m.group(2)))
    for need in ("state", "is_awaiting_discoveries", "target_max_depth"):
        if need not in dbg:
            raise Unsupported(f"simulation: local `{need}` not found")

    class Ex(SimExecutor):
        pass
    Ex.exp_locals = frozenset(int(x) for x in re.findall(r"_(\d+) = discriminant\(\([^;]*: Expectation\)\);", text))
    Ex.term_local, Ex.await_local = None, dbg["is_awaiting_discoveries"]
    body = parse_body(text)
    ex = Ex({Executor.short(body): body})
    ex.job_types, ex.depth_idx = [], None
    loops = natural_loops_by_dominators(body)

    def calls_in(blks):
        return [body.blocks[n].term.args["func"] for n in blks if body.blocks[n].term.kind == "call"]

    def innermost(pred):
        c = [(len(blks), h) for h, blks in loops.items() if any(pred(f) for f in calls_in(blks))]
        return min(c)[1] if c else None
    H_P = innermost(lambda f: re.match(r"^(move|copy) _\d+$", f) is not None and True)
    H_T = innermost(lambda f: f.endswith("IdSet::contains"))
    H_outer = max((len(b), h) for h, b in loops.items())[1]
    # the property loop is the innermost loop holding a call through a bool-returning function pointer AND IdSet::remove
    H_P = innermost(lambda f: f.endswith("IdSet::remove"))
    if None in (H_P, H_T) or len({H_P, H_T, H_outer}) != 3:
        raise Unsupported(f"simulation: loops not recognised (property loop {H_P}, tail loop {H_T}, trace loop {H_outer})")
    ex.loop_havoc = {h: _assigned(body, blks) for h, blks in loops.items()}
    ex.stop_blocks = set()
    st = State()
    tgt_some, tgt = z3.Bool("sim_has_target_max_depth"), z3.Int("sim_target_max_depth")
    base = [tgt >= 1]
    hdr = text.split("\n", 1)[0]
    for pno in body.params:
        if pno == dbg["target_max_depth"]:
            st.locals[pno] = st.alloc(("opt", tgt_some, st.alloc(I(tgt))))
        elif re.search(rf"_{pno}: &", hdr):
            st.locals[pno] = st.alloc(("ref", st.alloc(("opaque", f"param{pno}"))))
        else:
            st.locals[pno] = st.alloc(("opaque", f"param{pno}"))
    outs = ex.run(body, st, 0)
    res = []

    def add(tag, ob, r):
        res.append({"obligation": f"simulation check_trace_from_initial: {ob}", "tag": tag, "result": "unsat" if r == z3.unsat else ("sat" if r == z3.sat else str(r))})

    def must(tag, ob, g, *neg, structural_ok=None):
        if structural_ok is True:
            return add(tag, ob, z3.unsat)
        if structural_ok is False:
            return add(tag, ob, _check(base, g)[0])
        add(tag, ob, _check(base, g, *neg)[0])

    # does the property loop skip Eventually properties that have a discovery?
    n = {"P": 0, "T": 0, "disc_P": 0, "disc_T": 0, "clear": 0}
    feas = []
    for i, o in enumerate(outs):
        if o.kind == "panic":
            continue
        g = z3.And(*o.st.pc) if o.st.pc else z3.BoolVal(True)
        if _check(base, g)[0] == z3.sat:
            feas.append((i, o, g))
    for i, o, g in feas:
        evs = o.st.events
        lp = [k for k, e in enumerate(evs) if e[0] == "loop"]
        tagp = f"path {i} [" + ",".join(e[0] for e in evs if e[0] not in ("loop", "iter_next", "discr_of", "pop_some")) + f"]->{o.kind}"
        cur_state = o.st.heap.get(o.st.locals.get(dbg["state"], -1))
        # --- an iteration of the property loop
        if o.kind == "cut" and o.info.get("bb") == H_P:
            k0 = max(k for k in lp if evs[k][1] == H_P)
            it = evs[k0:]
            cks = [e for e in it if e[0] == "contains_key"]
            conds = [e for e in it if e[0] == "condition"]
            exps = [e for e in it if e[0] == "expectation"]
            discs = [e for e in it if e[0] == "discover"]
            clears = [e for e in it if e[0] == "ebits_remove"]
            n["P"] += 1
            if len(conds) > 1 or len(cks) > 1 or len(exps) > 1:
                raise Unsupported("simulation: a property-loop iteration with several condition calls / lookups")
            K = exps[0][1] if exps else None
            c = conds[0][1] if conds else None
            if not conds:
                must("C02", f"{tagp}: P-eval: a property is skipped only if it already has a discovery", g, *([z3.Not(cks[0][1])] if cks else []))
            else:
                must("C03", f"{tagp}: P-polarity: the condition is evaluated on the trace's current state", g, structural_ok=(cur_state is not None and cur_state in conds[0][2]))
            for dsc in discs:
                n["disc_P"] += 1
                if c is None or K is None:
                    must("C03,C02", f"{tagp}: P-polarity: a discovery is recorded only after the property's condition was evaluated", g, structural_ok=False)
                    continue
                must("C03,C02", f"{tagp}: P-polarity: an always/sometimes discovery is recorded only on verdict false for Always / true for Sometimes", g,
                     z3.Not(z3.Or(z3.And(K == A, z3.Not(c)), z3.And(K == S_, c))))
                if cks:
                    must("C03,C02", f"{tagp}: P-polarity: the discovery is recorded under the name of the property that was evaluated", g, structural_ok=(dsc[2] in cks[0][2]))
            if c is not None and K is not None and not discs:
                must("C02", f"{tagp}: P-complete: Always with verdict false / Sometimes with verdict true records a discovery", g, z3.Or(z3.And(K == A, z3.Not(c)), z3.And(K == S_, c)))
            for cl in clears:
                n["clear"] += 1
                if c is None or K is None:
                    must("C11,C03", f"{tagp}: P-clear: a bit is cleared only after the property's condition was evaluated", g, structural_ok=False)
                    continue
                must("C11,C03", f"{tagp}: P-clear: an eventually-bit is cleared only for an Eventually property whose condition held on this state", g, z3.Not(z3.And(K == E, c)))
                must("C11,C03", f"{tagp}: P-index: the bit index is the property's position in the full property list", g, structural_ok=_index_source(it)[0])
            if c is not None and K is not None and not clears:
                must("C11,C03", f"{tagp}: P-clearall: Eventually with verdict true clears the bit", g, K == E, c)
            aw = _val_at_end(o.st, dbg["is_awaiting_discoveries"])
            hv = next((e[3] for e in it if e[0] == "loop"), None)
            if aw is not None and hv is not None:
                must("C02", f"{tagp}: P-await: an iteration never takes the awaiting flag back", g, hv, z3.Not(aw))
                if not discs:
                    must("C02", f"{tagp}: P-await: an iteration that leaves its property without a discovery sets the awaiting flag", g, *([z3.Not(cks[0][1])] if cks else []), z3.Not(aw))
        # --- an iteration of the tail loop (eventually discoveries of this trace)
        if o.kind == "cut" and o.info.get("bb") == H_T:
            k0 = max(k for k in lp if evs[k][1] == H_T)
            it = evs[k0:]
            before = evs[:k0]
            n["T"] += 1
            ecs = [e for e in it if e[0] == "ebits_contains"]
            cks = [e for e in it if e[0] == "contains_key"]
            discs = [e for e in it if e[0] == "discover"]
            # how the trace loop was left: events of the last round
            ko = max([k for k in lp if k < k0 and evs[k][1] == H_outer], default=None)
            rnd = before[ko:] if ko is not None else before
            dead = [e for e in rnd if e[0] == "actions_empty"]
            seen = [e for e in rnd if e[0] == "seen_insert"]
            p_exit = [e for e in rnd if e[0] == "loop" and e[1] == H_P]
            lemma = []
            if p_exit and not [e for e in rnd if e[0] == "actions"]:
                # left after the property loop without generating actions: "found all discoveries".  By the P-await obligations a
                # false awaiting flag at loop exit means every property had a discovery; discoveries are never removed.
                aw_exit = p_exit[-1][3]
                if aw_exit is not None:
                    lemma = [z3.Implies(z3.Not(aw_exit), ck[1]) for ck in cks]
            for dsc in discs:
                if _check(base, g, *lemma)[0] != z3.sat:
                    continue
                n["disc_T"] += 1
                if not ecs:
                    must("C03,C11", f"{tagp}: T-terminal: an eventually discovery is recorded only after the bit was looked up", g, structural_ok=False)
                    continue
                must("C03,C11", f"{tagp}: T-terminal: an eventually discovery is recorded only while the bit is still set", g, *lemma, z3.Not(ecs[0][1]))
                must("C03,C11", f"{tagp}: T-index: the bit index is the property's position in the full property list", g, structural_ok=_index_source(it)[0])
                if cks and dsc[2] in cks[0][2]:
                    must("C03,C11", f"{tagp}: T-accurate: an eventually discovery is recorded only while the property has none yet (bits of decided properties go stale)", g, *lemma, cks[0][1])
                else:
                    must("C03,C11", f"{tagp}: T-accurate: an eventually discovery is recorded only while the property has none yet (bits of decided properties go stale)", g, structural_ok=False)
                ok_dead = bool(dead) and _check(base, g, *lemma, z3.Not(dead[-1][1]))[0] == z3.unsat
                ok_cycle = bool(seen) and not [e for e in rnd[rnd.index(seen[-1]):] if e[0] in ("condition", "actions")] and _check(base, g, *lemma, seen[-1][1])[0] == z3.unsat
                if ok_cycle and not ok_dead:
                    k_seen = rnd.index(seen[-1])
                    must("C03", f"{tagp}: Sim-cycle: the state found repeated is appended to the path before the trace ends (the reported path shows the cycle it closes)", g,
                         structural_ok=any(e[0] == "fp_push" for e in rnd[:k_seen]))
                must("C03,C11", f"{tagp}: Sim-end: an eventually discovery is recorded only when the trace ended in a dead end (no action left) or closed a cycle - not when the chosen successor merely left the boundary", g,
                     structural_ok=(ok_dead or ok_cycle))
    if min(n.values()) == 0:
        raise Unsupported(f"simulation: shape not recognised {n}")
    return res, {"function": body.name, "blocks": len(body.blocks), "paths": len(outs), "seen": n, "loops_havocked": [f"bb{h}" for h in sorted(loops)]}
