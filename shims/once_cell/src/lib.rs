//! Verification model of `once_cell` (subset used by ahash 0.8 and dashmap 6): sequential cells.
//! The real `race::OnceBox` frees the losing box after a failed compare-exchange; under Kani's
//! atomics model that branch produces spurious "free of non-dynamic object" failures.  These
//! harnesses are single-threaded, so "initialise once, then always return the same reference"
//! is the whole contract.
pub mod race {
    use std::cell::UnsafeCell;
    pub struct OnceBox<T> {
        v: UnsafeCell<Option<Box<T>>>,
    }
    unsafe impl<T: Sync + Send> Sync for OnceBox<T> {}
    impl<T> OnceBox<T> {
        pub const fn new() -> Self {
            OnceBox { v: UnsafeCell::new(None) }
        }
        pub fn get(&self) -> Option<&T> {
            unsafe { (*self.v.get()).as_deref() }
        }
        pub fn get_or_init<F: FnOnce() -> Box<T>>(&self, f: F) -> &T {
            unsafe {
                let slot = &mut *self.v.get();
                if slot.is_none() {
                    *slot = Some(f());
                }
                slot.as_deref().unwrap()
            }
        }
        pub fn set(&self, value: Box<T>) -> Result<(), Box<T>> {
            unsafe {
                let slot = &mut *self.v.get();
                if slot.is_none() {
                    *slot = Some(value);
                    Ok(())
                } else {
                    Err(value)
                }
            }
        }
    }
    impl<T> Default for OnceBox<T> {
        fn default() -> Self {
            Self::new()
        }
    }
}
pub mod sync {
    use std::cell::UnsafeCell;
    pub struct OnceCell<T> {
        v: UnsafeCell<Option<T>>,
    }
    unsafe impl<T: Sync + Send> Sync for OnceCell<T> {}
    unsafe impl<T: Send> Send for OnceCell<T> {}
    impl<T> OnceCell<T> {
        pub const fn new() -> Self {
            OnceCell { v: UnsafeCell::new(None) }
        }
        pub fn get(&self) -> Option<&T> {
            unsafe { (*self.v.get()).as_ref() }
        }
        pub fn get_or_init<F: FnOnce() -> T>(&self, f: F) -> &T {
            unsafe {
                let slot = &mut *self.v.get();
                if slot.is_none() {
                    *slot = Some(f());
                }
                slot.as_ref().unwrap()
            }
        }
        pub fn set(&self, t: T) -> Result<(), T> {
            unsafe {
                let slot = &mut *self.v.get();
                if slot.is_none() {
                    *slot = Some(t);
                    Ok(())
                } else {
                    Err(t)
                }
            }
        }
    }
    impl<T> Default for OnceCell<T> {
        fn default() -> Self {
            Self::new()
        }
    }
    pub struct Lazy<T, F = fn() -> T> {
        cell: OnceCell<T>,
        init: std::cell::Cell<Option<F>>,
    }
    unsafe impl<T: Sync + Send, F: Send> Sync for Lazy<T, F> {}
    impl<T, F> Lazy<T, F> {
        pub const fn new(f: F) -> Self {
            Lazy { cell: OnceCell::new(), init: std::cell::Cell::new(Some(f)) }
        }
    }
    impl<T, F: FnOnce() -> T> std::ops::Deref for Lazy<T, F> {
        type Target = T;
        fn deref(&self) -> &T {
            self.cell.get_or_init(|| (self.init.take().expect("Lazy instance has previously been poisoned"))())
        }
    }
}
