// replay for property C15, harness c15::c15_choice_never_random
// inject into harness module c15.rs of the scratch copy and run `cargo kani playback -Z concrete-playback`
/// Test generated for harness `verif_harness::c15::c15_choice_never_random` 
///
/// Check for `assertion`: ""C15 on_random: state written exactly when the wrapped actor writes it""

#[test]
fn kani_concrete_playback_c15_choice_never_random_9734823559436492628() {
    let concrete_vals: Vec<Vec<u8>> = vec![
        // 1
        vec![1],
        // 255
        vec![255],
        // 255
        vec![255],
        // 255
        vec![255],
        // 255
        vec![255],
        // 255
        vec![255],
        // 255
        vec![255],
        // 18446744073709551615ul
        vec![255, 255, 255, 255, 255, 255, 255, 255],
        // 18446744073709551615ul
        vec![255, 255, 255, 255, 255, 255, 255, 255],
        // 1
        vec![1],
        // 4
        vec![4],
        // 18446744073709551615ul
        vec![255, 255, 255, 255, 255, 255, 255, 255],
        // 0ul
        vec![0, 0, 0, 0, 0, 0, 0, 0],
        // 255
        vec![255],
        // 255
        vec![255],
        // 4
        vec![4],
        // 255
        vec![255],
        // 255
        vec![255],
    ];
    kani::concrete_playback_run(concrete_vals, c15_choice_never_random);
}

/// Test generated for harness `verif_harness::c15::c15_choice_never_random` 
///
/// Check for `cover`: "wrapped actor did nothing (no-op)"

#[test]
fn kani_concrete_playback_c15_choice_never_random_8963197663980621939() {
    let concrete_vals: Vec<Vec<u8>> = vec![
        // 0
        vec![0],
        // 255
        vec![255],
        // 255
        vec![255],
        // 255
        vec![255],
        // 255
        vec![255],
        // 255
        vec![255],
        // 255
        vec![255],
        // 17732923532771327ul
        vec![255, 255, 255, 255, 255, 255, 62, 0],
        // 18446744073709551615ul
        vec![255, 255, 255, 255, 255, 255, 255, 255],
        // 0
        vec![0],
        // 255
        vec![255],
        // 18446744073709551615ul
        vec![255, 255, 255, 255, 255, 255, 255, 255],
        // 18446744073709551615ul
        vec![255, 255, 255, 255, 255, 255, 255, 255],
        // 255
        vec![255],
        // 255
        vec![255],
        // 255
        vec![255],
        // 255
        vec![255],
    ];
    kani::concrete_playback_run(concrete_vals, c15_choice_never_random);
}

/// Test generated for harness `verif_harness::c15::c15_choice_never_random` 
///
/// Check for `assertion`: ""C15 on_random: same commands in the same order""

#[test]
fn kani_concrete_playback_c15_choice_never_random_13675157556641602212() {
    let concrete_vals: Vec<Vec<u8>> = vec![
        // 0
        vec![0],
        // 255
        vec![255],
        // 255
        vec![255],
        // 255
        vec![255],
        // 255
        vec![255],
        // 255
        vec![255],
        // 255
        vec![255],
        // 17732923532771327ul
        vec![255, 255, 255, 255, 255, 255, 62, 0],
        // 18446744073709551615ul
        vec![255, 255, 255, 255, 255, 255, 255, 255],
        // 1
        vec![1],
        // 255
        vec![255],
        // 18446744073709551615ul
        vec![255, 255, 255, 255, 255, 255, 255, 255],
        // 18446744073709551615ul
        vec![255, 255, 255, 255, 255, 255, 255, 255],
        // 0
        vec![0],
        // 255
        vec![255],
        // 255
        vec![255],
        // 255
        vec![255],
        // 255
        vec![255],
        // 0
        vec![0],
        // 0
        vec![0],
        // 255
        vec![255],
        // 255
        vec![255],
        // 0
        vec![0],
        // 255
        vec![255],
        // 255
        vec![255],
        // 15481123719086079ul
        vec![255, 255, 255, 255, 255, 255, 54, 0],
        // 18446744073709551615ul
        vec![255, 255, 255, 255, 255, 255, 255, 255],
        // 0
        vec![0],
        // 255
        vec![255],
        // 18446744073709551615ul
        vec![255, 255, 255, 255, 255, 255, 255, 255],
        // 18446744073709551615ul
        vec![255, 255, 255, 255, 255, 255, 255, 255],
        // 255
        vec![255],
        // 255
        vec![255],
        // 255
        vec![255],
        // 255
        vec![255],
    ];
    kani::concrete_playback_run(concrete_vals, c15_choice_never_random);
}
