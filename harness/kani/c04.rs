//! C04 — state identity is faithful (the part reachable without hash-table contents).
//!
//! A recording `Hasher` captures the exact byte stream (and call structure) a value feeds to the
//! hasher.  For two arbitrary values x, y the harness asserts
//!   x == y  =>  identical stream and call structure   (equal ones never split)
//!   x != y  =>  different byte streams                 (distinct ones never merge systematically)
//! and, for `ActorModelState`, that `==` is exactly componentwise equality over every component
//! that influences behaviour (actor states, history, crash flags; timers/choices/network empty).
//! Instantiations: `VectorClock`, `DenseNatMap<Id,u8>`, pairs of them side by side,
//! `ActorModelState<UA, u8>` with 1 (thorough: 2) actors.
use super::common::*;
use crate::actor::{Actor, ActorModelState, Envelope, Id, Network, Out, RandomChoices, Timers};
use crate::util::{DenseNatMap, VectorClock};
use std::sync::Arc;

fn pad_eq(a: &SymVec<u32>, b: &SymVec<u32>) -> bool {
    a.at(0) == b.at(0) && a.at(1) == b.at(1) && a.at(2) == b.at(2) && a.at(3) == b.at(3)
}

/// Two clocks side by side in a tuple (a struct with two clock fields hashes the same way):
/// equal pairs hash identically, unequal pairs feed different byte streams - in particular
/// moving a component from the end of the first clock to the start of the second is visible.
fn clock_pairs<const A1: usize, const B1: usize, const A2: usize, const B2: usize>() {
    let a1 = SymVec::<u32>::any_n(A1);
    let b1 = SymVec::<u32>::any_n(B1);
    let a2 = SymVec::<u32>::any_n(A2);
    let b2 = SymVec::<u32>::any_n(B2);
    let x = (VectorClock::from(a1.vec()), VectorClock::from(b1.vec()));
    let y = (VectorClock::from(a2.vec()), VectorClock::from(b2.vec()));
    let rx = rec_of(&x);
    let ry = rec_of(&y);
    assert!(!rx.overflow && !ry.overflow);
    let want_eq = pad_eq(&a1, &a2) && pad_eq(&b1, &b2);
    assert!((x == y) == want_eq, "C04 pair of clocks: == is componentwise equality up to trailing zeros");
    if want_eq {
        assert!(rx.same_calls(&ry), "C04 equal clock pairs hash identically");
    } else {
        assert!(!rx.same_bytes(&ry), "C04 unequal clock pairs feed different byte streams");
    }
    kani::cover!(!want_eq, "unequal pairs");
}

#[kani::proof]
#[kani::unwind(11)]
fn c04_clock_pairs_shift() {
    // the classic adjacency collision shape: ([x], []) vs ([], [x]); ([x,y],[z]) vs ([x],[y,z])
    clock_pairs::<1, 0, 0, 1>();
    clock_pairs::<2, 1, 1, 2>();
    clock_pairs::<2, 0, 1, 1>();
}
#[kani::proof]
#[kani::unwind(11)]
fn c04_clock_pairs_same_shape() {
    clock_pairs::<2, 2, 2, 2>();
    clock_pairs::<1, 2, 2, 1>();
    clock_pairs::<0, 0, 1, 1>();
}

/// Dense maps (derived Hash over the value vector) alone and side by side.
fn map_pairs<const A1: usize, const B1: usize, const A2: usize, const B2: usize>() {
    let a1 = SymVec::<u8>::any_n(A1);
    let b1 = SymVec::<u8>::any_n(B1);
    let a2 = SymVec::<u8>::any_n(A2);
    let b2 = SymVec::<u8>::any_n(B2);
    let x: (DenseNatMap<Id, u8>, DenseNatMap<Id, u8>) = (DenseNatMap::from(a1.vec()), DenseNatMap::from(b1.vec()));
    let y: (DenseNatMap<Id, u8>, DenseNatMap<Id, u8>) = (DenseNatMap::from(a2.vec()), DenseNatMap::from(b2.vec()));
    let rx = rec_of(&x);
    let ry = rec_of(&y);
    assert!(!rx.overflow && !ry.overflow);
    let veq = |p: &SymVec<u8>, q: &SymVec<u8>| p.len == q.len && (p.len < 1 || p.c[0] == q.c[0]) && (p.len < 2 || p.c[1] == q.c[1]) && (p.len < 3 || p.c[2] == q.c[2]);
    let want_eq = veq(&a1, &a2) && veq(&b1, &b2);
    assert!((x == y) == want_eq, "C04 pair of dense maps: == is equality of lengths and entries");
    if want_eq {
        assert!(rx.same_calls(&ry), "C04 equal dense-map pairs hash identically");
    } else {
        assert!(!rx.same_bytes(&ry), "C04 unequal dense-map pairs feed different byte streams");
    }
    kani::cover!(!want_eq, "unequal pairs");
}

#[kani::proof]
#[kani::unwind(7)]
fn c04_densemap_pairs() {
    map_pairs::<1, 0, 0, 1>();
    map_pairs::<2, 1, 1, 2>();
    map_pairs::<2, 2, 2, 2>();
    map_pairs::<3, 0, 0, 3>();
}

// ---- hashable hash containers side by side -------------------------------------------------------

use crate::util::{HashableHashMap, HashableHashSet};

fn set_n<const N: usize>(c: [u8; 2]) -> HashableHashSet<u8> {
    let mut s = HashableHashSet::new();
    let mut i = 0;
    while i < N {
        s.insert(c[i]);
        i += 1;
    }
    s
}

/// Two `HashableHashSet<u8>` side by side (tuple / struct fields / vector elements hash the same
/// way): which of the two adjacent sets holds an element must be visible to the hasher, and equal
/// pairs must hash identically whatever the insertion order.
fn set_pairs<const A1: usize, const B1: usize, const A2: usize, const B2: usize>() {
    let a1: [u8; 2] = [kani::any(), kani::any()];
    let b1: [u8; 2] = [kani::any(), kani::any()];
    let a2: [u8; 2] = [kani::any(), kani::any()];
    let b2: [u8; 2] = [kani::any(), kani::any()];
    let x = (set_n::<A1>(a1), set_n::<B1>(b1));
    let y = (set_n::<A2>(a2), set_n::<B2>(b2));
    let rx = rec_of(&x);
    let ry = rec_of(&y);
    assert!(!rx.overflow && !ry.overflow);
    if x == y {
        assert!(rx.same_calls(&ry), "C04 equal pairs of hashable sets hash identically");
    } else {
        assert!(!rx.same_bytes(&ry), "C04 adjacent hashable sets that hold an element in different places feed different byte streams");
    }
    kani::cover!(x != y, "unequal pairs");
}

#[kani::proof]
#[kani::unwind(4)]
fn c04_hashset_adjacent() {
    set_pairs::<1, 0, 0, 1>();
}
#[kani::proof]
#[kani::unwind(4)]
fn c04_t_hashset_insertion_order() {
    // the same two elements inserted in either order: equal sets, identical streams
    let a: u8 = kani::any();
    let b: u8 = kani::any();
    let x = set_n::<2>([a, b]);
    let y = set_n::<2>([b, a]);
    assert!(x == y, "C04 set equality ignores insertion order");
    assert!(rec_of(&x).same_calls(&rec_of(&y)), "C04 equal sets hash identically whatever the insertion order");
    let z = set_n::<1>([a, 0]);
    if a != b {
        assert!(x != z && !rec_of(&x).same_bytes(&rec_of(&z)), "C04 sets of different size feed different streams");
    }
    kani::cover!(a != b, "two distinct elements");
}

/// Same for `HashableHashMap<u8,u8>` with one entry moved between two adjacent maps.
#[kani::proof]
#[kani::unwind(4)]
fn c04_t_hashmap_adjacent() {
    let (k, v, k2, v2): (u8, u8, u8, u8) = (kani::any(), kani::any(), kani::any(), kani::any());
    let mut m1: HashableHashMap<u8, u8> = HashableHashMap::new();
    m1.insert(k, v);
    let e1: HashableHashMap<u8, u8> = HashableHashMap::new();
    let mut m2: HashableHashMap<u8, u8> = HashableHashMap::new();
    m2.insert(k2, v2);
    let e2: HashableHashMap<u8, u8> = HashableHashMap::new();
    let x = (m1, e1);
    let y = (e2, m2);
    assert!(x != y, "C04 a map holding one entry next to an empty map differs from the mirrored pair");
    assert!(!rec_of(&x).same_bytes(&rec_of(&y)), "C04 adjacent hashable maps that hold an entry in different places feed different byte streams");
    kani::cover!(k == k2 && v == v2, "same entry on either side");
}

// ---- ActorModelState ----------------------------------------------------------------------------

pub struct UA;
impl Actor for UA {
    type Msg = u8;
    type State = u8;
    type Timer = u8;
    type Random = u8;
    fn on_start(&self, _id: Id, _o: &mut Out<Self>) -> u8 {
        0
    }
}

fn state_n<const N: usize>(st: [u8; 3], cr: [bool; 3], h: u8) -> ActorModelState<UA, u8> {
    let (actor_states, timers_set, random_choices, crashed) = match N {
        1 => (vec![Arc::new(st[0])], vec![Timers::new()], vec![RandomChoices::default()], vec![cr[0]]),
        2 => (
            vec![Arc::new(st[0]), Arc::new(st[1])],
            vec![Timers::new(), Timers::new()],
            vec![RandomChoices::default(), RandomChoices::default()],
            vec![cr[0], cr[1]],
        ),
        _ => (
            vec![Arc::new(st[0]), Arc::new(st[1]), Arc::new(st[2])],
            vec![Timers::new(), Timers::new(), Timers::new()],
            vec![RandomChoices::default(), RandomChoices::default(), RandomChoices::default()],
            vec![cr[0], cr[1], cr[2]],
        ),
    };
    ActorModelState { actor_states, network: Network::new_ordered([]), timers_set, random_choices, crashed, history: h }
}

/// Two actor-system states that may differ in actor states, history and crash flags (timers,
/// random choices and network empty in both): they are `==` exactly when all three components
/// agree; equal states hash identically; states that differ - in particular ONLY in a crash
/// flag - feed different byte streams.
fn ams_identity<const N: usize>() {
    let st1: [u8; 3] = [kani::any(), kani::any(), kani::any()];
    let st2: [u8; 3] = [kani::any(), kani::any(), kani::any()];
    let cr1: [bool; 3] = [kani::any(), kani::any(), kani::any()];
    let cr2: [bool; 3] = [kani::any(), kani::any(), kani::any()];
    let h1: u8 = kani::any();
    let h2: u8 = kani::any();
    let s1 = state_n::<N>(st1, cr1, h1);
    let s2 = state_n::<N>(st2, cr2, h2);
    let mut same_states = true;
    let mut same_crashed = true;
    let mut i = 0;
    while i < N {
        if st1[i] != st2[i] {
            same_states = false;
        }
        if cr1[i] != cr2[i] {
            same_crashed = false;
        }
        i += 1;
    }
    let want_eq = same_states && same_crashed && h1 == h2;
    let r1 = rec_of(&s1);
    let r2 = rec_of(&s2);
    assert!(!r1.overflow && !r2.overflow);
    if same_states && h1 == h2 {
        // isolate the crash-flag component
        assert!((s1 == s2) == same_crashed, "C04 states differing only in crash flags are different states (==)");
        assert!(r1.same_bytes(&r2) == same_crashed, "C04 states differing only in crash flags feed different byte streams");
    }
    assert!((s1 == s2) == want_eq, "C04 ActorModelState == is equality of actor states, history and crash flags");
    if want_eq {
        assert!(r1.same_calls(&r2), "C04 equal actor-system states hash identically");
    } else {
        assert!(!r1.same_bytes(&r2), "C04 unequal actor-system states feed different byte streams");
    }
    kani::cover!(same_states && h1 == h2 && !same_crashed, "states differing only in a crash flag");
    kani::cover!(want_eq, "equal states");
}

#[kani::proof]
#[kani::unwind(3)]
fn c04_ams_identity_n1() {
    ams_identity::<1>();
}
#[kani::proof]
#[kani::unwind(4)]
fn c04_t_ams_identity_n2() {
    ams_identity::<2>();
}
/// A pending random choice is part of what influences future behaviour: two states that differ
/// ONLY in whether the actor has a pending choice must be different states with different streams.
/// (On the pinned tree they are not: KNOWN FINDING, see known_findings.json / DESIGN 5.4.)
#[kani::proof]
#[kani::unwind(4)]
fn c04_ams_random_choice_n1() {
    let st: u8 = kani::any();
    let h: u8 = kani::any();
    let s1 = state_n::<1>([st, 0, 0], [false, false, false], h);
    let mut s2 = state_n::<1>([st, 0, 0], [false, false, false], h);
    let r: u8 = kani::any();
    s2.random_choices[0].insert(String::new(), vec![r]);
    assert!(s1 != s2, "C04 states differing only in a pending random choice are different states (==)");
    assert!(!rec_of(&s1).same_bytes(&rec_of(&s2)), "C04 states differing only in a pending random choice feed different byte streams");
    kani::cover!(true, "random-choice identity reached");
}

/// A single-entry `HashableHashMap<u8,u8>`: the stream determines the entry (key AND value, each
/// in its role): {k->v} and {k2->v2} are equal exactly when k == k2 and v == v2, equal maps hash
/// identically and unequal ones - e.g. {1->2} vs {2->1}, {3->3} vs {4->4} - feed different streams.
#[kani::proof]
#[kani::unwind(4)]
fn c04_t_hashmap_entry_roles() {
    let (k, v, k2, v2): (u8, u8, u8, u8) = (kani::any(), kani::any(), kani::any(), kani::any());
    // the two shapes a key/value mix-up shows in: swapped roles, or key == value on both sides
    kani::assume((k2 == v && v2 == k) || (k == v && k2 == v2));
    let mut x: HashableHashMap<u8, u8> = HashableHashMap::new();
    x.insert(k, v);
    let mut y: HashableHashMap<u8, u8> = HashableHashMap::new();
    y.insert(k2, v2);
    let want_eq = k == k2 && v == v2;
    assert!((x == y) == want_eq, "C04 single-entry maps are equal exactly when key and value agree");
    if want_eq {
        assert!(rec_of(&x).same_calls(&rec_of(&y)), "C04 equal hashable maps hash identically");
    } else {
        assert!(!rec_of(&x).same_bytes(&rec_of(&y)), "C04 hashable maps whose entry differs in key or value (roles swapped, self-mapped) feed different byte streams");
    }
    kani::cover!(!want_eq && k2 == v && v2 == k, "entry with key and value swapped");
    kani::cover!(!want_eq && k == v && k2 == v2, "two different self-mapped entries");
}

/// A set timer is part of the identity: two one-actor states that differ only in their timer sets
/// ({} / {t1} / {t2}) are equal exactly when the sets are, and unequal ones feed different streams.
#[kani::proof]
#[kani::unwind(4)]
fn c04_t_ams_timer_n1() {
    let st: u8 = kani::any();
    let h: u8 = kani::any();
    let (has1, has2, t1, t2): (bool, bool, u8, u8) = (kani::any(), kani::any(), kani::any(), kani::any());
    let mut s1 = state_n::<1>([st, 0, 0], [false, false, false], h);
    let mut s2 = state_n::<1>([st, 0, 0], [false, false, false], h);
    if has1 {
        s1.timers_set[0].set(t1);
    }
    if has2 {
        s2.timers_set[0].set(t2);
    }
    let same = has1 == has2 && (!has1 || t1 == t2);
    assert!((s1 == s2) == same, "C04 states differing only in a set timer are different states (==)");
    if same {
        assert!(rec_of(&s1).same_calls(&rec_of(&s2)), "C04 equal actor-system states (same timers) hash identically");
    } else {
        assert!(!rec_of(&s1).same_bytes(&rec_of(&s2)), "C04 states differing only in a set timer feed different byte streams");
    }
    kani::cover!(has1 && has2 && t1 != t2, "two different timers set");
    kani::cover!(has1 != has2, "timer set on one side only");
}

/// An in-flight message is part of the identity (duplicating network, one envelope 0 -> 0).
#[kani::proof]
#[kani::unwind(4)]
fn c04_t_ams_inflight_n1() {
    let st: u8 = kani::any();
    let h: u8 = kani::any();
    let (has1, has2, m1, m2): (bool, bool, u8, u8) = (kani::any(), kani::any(), kani::any(), kani::any());
    let mut s1 = state_n::<1>([st, 0, 0], [false, false, false], h);
    let mut s2 = state_n::<1>([st, 0, 0], [false, false, false], h);
    s1.network = Network::new_unordered_duplicating([]);
    s2.network = Network::new_unordered_duplicating([]);
    if has1 {
        s1.network.send(Envelope { src: Id::from(0usize), dst: Id::from(0usize), msg: m1 });
    }
    if has2 {
        s2.network.send(Envelope { src: Id::from(0usize), dst: Id::from(0usize), msg: m2 });
    }
    let same = has1 == has2 && (!has1 || m1 == m2);
    assert!((s1 == s2) == same, "C04 states differing only in an in-flight message are different states (==)");
    if same {
        assert!(rec_of(&s1).same_calls(&rec_of(&s2)), "C04 equal actor-system states (same network) hash identically");
    } else {
        assert!(!rec_of(&s1).same_bytes(&rec_of(&s2)), "C04 states differing only in an in-flight message feed different byte streams");
    }
    kani::cover!(has1 && has2 && m1 != m2, "two different messages in flight");
    kani::cover!(has1 != has2, "message in flight on one side only");
}

/// Vacuity twin.
#[kani::proof]
#[kani::unwind(3)]
fn c04_twin_must_fail() {
    let s1 = state_n::<1>([kani::any(), 0, 0], [kani::any(), false, false], kani::any());
    let s2 = state_n::<1>([kani::any(), 0, 0], [kani::any(), false, false], kani::any());
    assert!(s1 == s2, "TWIN all states are equal (false)");
}
