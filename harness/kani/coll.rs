//! Container types as seen by the harnesses: the verification models (scratch copy analysed by Kani).
pub use crate::verif_models::*;
