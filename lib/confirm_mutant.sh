#!/bin/bash
# usage: confirm_mutant.sh <mutant-dir (patch.diff, demo.rs)> <file the demo is appended to> <demo test filter> <seeded-id>
# Confirms in a scratch worktree: (1) patch applies and compiles, (2) baseline lib tests: 84 pass / same 3 failures,
# (3) demo fails with the patch, (4) demo passes without it. Writes result lines; copies to /verif/seeded/<id>/ on success.
set -u
M=$1; TARGET=$2; FILTER=$3; ID=$4
WT=/tmp/confirm-$ID
export CARGO_NET_OFFLINE=true CARGO_TARGET_DIR=/tmp/confirm-target
git -C /repo worktree remove --force $WT 2>/dev/null
git -C /repo worktree add -q --detach $WT HEAD || exit 3
cd $WT
res=""
git apply $M/patch.diff || { echo "RESULT $ID: patch does not apply"; git -C /repo worktree remove --force $WT; exit 1; }
base=$(cargo test --lib --offline 2>&1 | grep -E "^test result" | head -1)
echo "with-mutation suite: $base"
cat $M/demo.rs >> $TARGET
withm=$(cargo test --lib --offline $FILTER 2>&1 | grep -E "^test result" | head -1)
echo "with-mutation demo: $withm"
git checkout -q -- . 
cat $M/demo.rs >> $TARGET
without=$(cargo test --lib --offline $FILTER 2>&1 | grep -E "^test result" | head -1)
echo "without-mutation demo: $without"
cd /; git -C /repo worktree remove --force $WT
ok=1
echo "$base" | grep -q "84 passed; 3 failed" || ok=0
echo "$withm" | grep -q "FAILED" || ok=0
echo "$without" | grep -q "test result: ok" || ok=0
echo "$without" | grep -q " 0 passed" && ok=0
if [ $ok = 1 ]; then
  mkdir -p /verif/seeded/$ID && cp $M/patch.diff $M/demo.rs /verif/seeded/$ID/ && cp $M/notes.md /verif/seeded/$ID/notes.md 2>/dev/null
  echo "RESULT $ID: CONFIRMED (suite: $base | demo with: $withm | demo without: $without)"
else
  echo "RESULT $ID: NOT CONFIRMED (suite: $base | demo with: $withm | demo without: $without)"
fi
