pub mod common;
pub mod c20;
pub mod c15;
pub mod c17;
pub mod c18;
