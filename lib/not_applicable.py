"""Properties not claimed, with the measured reason (DESIGN.md sections 1 and 4)."""
HOOK_COMMITS = []
_LOOPS = ("needs the checker loops (check_block / worker closures) run to fixpoint on a symbolic graph; measured: CBMC gives no verdict "
          "even for a concrete 2-state graph with DashMap replaced by a Vec model (symex path explosion through heap-resident VecDeque/Vec<Property>), "
          "and no MIR-level symbolic engine with container models exists in the image")
NOT_APPLICABLE = {
    "C01": _LOOPS,
    "C02": "verdict exactness is a function of the completed exploration: " + _LOOPS,
    "C03": "witness paths come out of the checker loops and Path::from_fingerprints over DashMap parent pointers: " + _LOOPS,
    "C04": "pending",
    "C05": "pending",
    "C06": "every ActorModel step clones and mutates Network/Timers/RandomChoices (hashbrown/BTreeMap); one symbolic-key hash insert costs 318 s in CBMC and set hashing does not finish",
    "C07": "pending",
    "C08": "the tester's state is nested BTreeMap<ThreadId, VecDeque<(BTreeMap<..>, Op, Ret)>> cloned per recursion level; a 1-thread 2-op history gave no CBMC verdict in 7 min",
    "C09": "pending",
    "C10": "pending",
    "C11": "ebits propagation lives in check_block / check_trace_from_initial: " + _LOOPS,
    "C12": "pending",
    "C13": "FIFO discipline and parent pointers are inside check_block/reconstruct_path: " + _LOOPS,
    "C14": "same BTreeMap-bound data structures as C08 (measured there)",
    "C16": "protocol invariant over all drop/duplicate/reorder interleavings with HashableHashMap state per actor and a hash-set network; neither whole-protocol exploration nor a one-step inductive harness is within CBMC's reach",
    "C19": "HTTP server, JSON, format!-built views, channels and threads; Path re-derivation runs the same heap-vector loops that defeat CBMC in C01",
}
