"""Depth limit in `check_block` (bfs.rs / dfs.rs), from its MIR, one job at a time.

One round = the outer loop of `check_block` from its head back to its head (or to `return`): a job
`(state, .., depth)` with a symbolic depth d >= 1 is popped from a queue of arbitrary length; the
inner loops (over properties, over successors) are abstracted by havocking, at their heads, every
local assigned inside them and every queue length, then exploring the exit path and one body
iteration (a sound over-approximation for the safety obligations below).  Everything the function
calls is arbitrary: model callbacks, property conditions (function pointers), the visitor, DashMap
operations, fingerprints, atomics.  What is tracked exactly: the popped job's depth, the comparison
with `target_max_depth`, the depth written into every job that is pushed.

Obligations (z3, per path), with `target_max_depth = Some(t)` or None symbolic:
  D1  a popped job is skipped (no visitor call, no property consulted, no successor generated)
      only if t is set and d >= t          -- every state nearer than the limit is evaluated
  D2  a job that is evaluated has d <= t    -- nothing deeper than the limit is evaluated
  D3  every job pushed while evaluating a job of depth d carries depth d + 1
"""
import re
import z3

from mir import parse_body, split_functions, split_top, Unsupported, _matching
from symex import Executor, State, Outcome, I, B, UNIT, InfeasiblePath
from workerloop import WorkerExecutor, loop_heads, _succ, _check

EVAL_EVENTS = ("visit", "condition", "actions", "properties_iter", "push_job", "within_boundary")


def find_helpers(mir_text, name):
    """non-closure functions of the checker's impl blocks (followed interprocedurally when check_block calls them)"""
    res = {}
    for f in split_functions(mir_text):
        hdr = f.split("\n", 1)[0]
        m = re.match(rf"^fn (?:checker::)?{name}::<impl at src/checker/{name}\.rs[^>]*>::(\w+)\(", hdr)
        if m and m.group(1) not in ("check_block", "spawn"):
            res[m.group(1)] = f
        m = re.match(rf"^fn (?:checker::)?{name}::<impl at src/checker/{name}\.rs[^>]*>::(check_block::\{{closure#\d+\}})\(", hdr)
        if m:
            res[m.group(1)] = f
    return res


def find_check_blocks(mir_text):
    res = {}
    for f in split_functions(mir_text):
        hdr = f.split("\n", 1)[0]
        m = re.match(r"^fn (?:checker::)?(\w+)::<impl at src/checker/(\w+)\.rs[^>]*>::check_block\(", hdr)
        if m:
            res[m.group(2)] = f
    return res


class BlockExecutor(WorkerExecutor):
    def __init__(self, bodies):
        super().__init__(bodies)
        self.trust_unreachable = True
        self.loop_havoc = {}
        self.job_types = None  # component types of the queue's element tuple
        self.depth_idx = None

    # -- lenient places: projections of opaque values are opaque
    def cell_of(self, st, place, create=True):
        if place.local not in st.locals:
            st.locals[place.local] = st.alloc(("uninit",))
        c = st.locals[place.local]
        for p in place.proj:
            v = st.heap[c]
            if v[0] == "variant":
                if p[0] == "downcast":
                    if p[1] != v[1]:
                        raise InfeasiblePath()
                    c = st.alloc(("struct", v[2]))
                    continue
                raise Unsupported(f"projection {p} of an enum variant value at {place}")
            if v[0] in ("opaque", "uninit") or (p[0] == "downcast" and not (v[0] == "opt" and p[1] == "Some")) or (p[0] == "deref" and v[0] not in ("ref", "arc", "box", "guard")) \
                    or (p[0] == "field" and v[0] not in ("struct", "opt_payload", "uninit")):
                key = ("proj", c, p)
                if key not in st.handles:
                    st.handles[key] = st.alloc(("opaque", f"proj#{next(self.fresh)}"))
                c = st.handles[key]
                continue
            if p[0] == "deref":
                c = v[1] if v[0] != "guard" else st.heap[v[1]][1]
            elif p[0] == "field":
                if v[0] == "struct":
                    d = dict(v[1])
                    if p[1] not in d:
                        d[p[1]] = st.alloc(("opaque", "field"))
                        st.heap[c] = ("struct", tuple(sorted(d.items(), key=lambda kv: str(kv[0])))) + tuple(v[2:])
                    c = d[p[1]]
                else:  # opt_payload
                    c = v[1]
            elif p[0] == "downcast":
                c = st.alloc(("opt_payload", v[2]))
            else:
                raise Unsupported(f"projection {p} at {place}")
        return c

    def read(self, st, op):
        if op.kind != "const":
            c = self.cell_of(st, op.place)
            if st.heap[c][0] == "uninit":
                st.heap[c] = ("opaque", "uninit-read")
        return super().read(st, op)

    def unsupported_rvalue(self, st, rv):
        return ("opaque", "rvalue")

    def eval_rv(self, st, rv):
        if rv[0] == "agg" and isinstance(rv[1], str) and rv[1].startswith("variant:"):
            return ("variant", rv[1][len("variant:"):], tuple((i, st.alloc(self.read(st, o))) for i, o in enumerate(rv[2])))
        if rv[0] == "discr":
            c = self.cell_of(st, rv[1])
            v = st.heap[c]
            if v[0] == "variant":
                # the index of a variant is not in the MIR text: one symbolic constant per variant name;
                # arms whose downcast names another variant are pruned in cell_of
                return I(z3.Int(f"variant_index!{v[1]}"))
            if v[0] != "opt":
                key = ("discr", c)
                if key not in st.handles:
                    st.handles[key] = self.fresh_int("discr")
                return I(st.handles[key])
        if rv[0] == "cbin":
            a, b = self.read(st, rv[2]), self.read(st, rv[3])
            if a[0] != "int" or b[0] != "int":
                return ("struct", ((0, st.alloc(I(self.fresh_int("arith")))), (1, st.alloc(B(self.fresh_bool("ovf"))))))
        if rv[0] == "agg" and rv[1] not in ("tuple", "Some", "None") and not isinstance(rv[2], dict):
            return ("opaque", "agg")
        try:
            return super().eval_rv(st, rv)
        except Unsupported as e:
            if str(e).startswith(("unary", "binop", "aggregate")):
                return ("opaque", "rvalue")
            raise

    def binop(self, op, a, b):
        if a[0] == "opaque" or b[0] == "opaque":
            if op in ("Eq", "Ne", "Lt", "Le", "Gt", "Ge"):
                return B(self.fresh_bool("cmp"))
            v = self.fresh_int("arith")
            return I(v)
        return super().binop(op, a, b)

    def apply_havoc(self, st, body, locals_):
        for l in locals_:
            ty = (body.locals_ty.get(l) or "").strip()
            cur = st.heap.get(st.locals.get(l, -1), ("uninit",))
            if cur[0] == "deque":
                continue
            if ty == "bool" or cur[0] == "bool":
                v = B(self.fresh_bool(f"hv{l}"))
            elif ty in ("usize", "u64") or cur[0] == "int":
                x = self.fresh_int(f"hv{l}")
                st.pc.append(x >= 0)
                v = I(x)
            else:
                v = ("opaque", "havoc")
            st.locals[l] = st.alloc(v)
        for c, v in list(st.heap.items()):
            if v[0] == "deque":
                x = self.fresh_int("hvq")
                st.pc.append(x >= 0)
                st.heap[c] = ("deque", x)

    def drop_value(self, st, v, body, t):
        if v[0] in ("struct", "int", "bool", "ref", "variant"):
            return None
        return super().drop_value(st, v, body, t)

    def _job(self, st):
        cells = []
        d = None
        for i, ty in enumerate(self.job_types):
            if i == self.depth_idx:
                d = self.fresh_int("depth")
                st.pc.append(d >= 1)
                cells.append((i, st.alloc(I(d))))
            else:
                cells.append((i, st.alloc(("opaque", f"job.{i}#{next(self.fresh)}"))))
        return ("struct", tuple(cells)), d

    def call(self, st, body, t):
        f = t.args["func"]
        args = [self.read(st, a) for a in t.args["args"]]
        dst = t.args["dst"]
        dst_ty = body.locals_ty.get(dst.local) if dst is not None and not dst.proj else None
        tcs = [self._target_cell(st, a) for a in args]

        mo = re.search(r"Option::<.*?>::(is_some_and|is_none_or|map_or)::<(?:bool, )?(\{closure@[^}]*\})>$", f)
        if mo and args and args[0][0] == "opt":
            # Option combinators with a closure of this function: the closure body is executed
            # symbolically on the payload (no side effects expected) and folded into one term
            which, span = mo.group(1), mo.group(2)
            cb = next((b for b in self.bodies.values() if b.text.split("\n", 1)[0].find(f"_1: {span}") >= 0), None)
            if cb is not None:
                opt = args[0]
                clo = args[-1]
                sub = st.clone()
                n0 = len(sub.pc)
                sub.frames, sub.events = [], []
                sub.locals = {cb.params[0]: sub.alloc(clo), cb.params[1]: sub.alloc(sub.heap[opt[2]])}
                saved = (self.stop_blocks, self.loop_havoc)
                self.stop_blocks, self.loop_havoc = set(), {}
                try:
                    outs = self.run(cb, sub, 0)
                finally:
                    self.stop_blocks, self.loop_havoc = saved
                    st.body_name = Executor.short(body)
                terms = []
                for o in outs:
                    if o.kind != "return" or o.info.get("ret", ("?",))[0] != "bool" or o.st.events:
                        raise Unsupported(f"closure passed to Option::{which} is not a pure predicate")
                    terms.append(z3.And(*(o.st.pc[n0:] + [o.info["ret"][1]])))
                r = z3.Or(*terms) if terms else z3.BoolVal(False)
                if which == "is_some_and":
                    return B(z3.And(opt[1], r))
                if which == "is_none_or":
                    return B(z3.Or(z3.Not(opt[1]), r))
                dflt = args[1]
                if dflt[0] != "bool":
                    raise Unsupported("map_or with a non-boolean default")
                return B(z3.If(opt[1], r, dflt[1]))
        mh = re.search(r"(?:BfsChecker|DfsChecker|Self)::<.*?>::(\w+)$", f)
        if mh and mh.group(1) in self.bodies and mh.group(1) not in ("check_block", "spawn") and len(st.frames) < 3:
            return ("enter", mh.group(1), args)
        if re.match(r"^(move|copy) _\d+$", f):
            st.events.append(("condition",))
            return self._fresh_by_type(st, dst_ty, "cond")
        mq = re.search(r"VecDeque::<.*>::(pop_back|pop_front|push_back|push_front)$", f)
        if mq:
            c, v = tcs[0]
            if v[0] != "deque":
                raise Unsupported(f"{f} on {v[0]}")
            op = mq.group(1)
            if op.startswith("pop"):
                job, d = self._job(st)
                st.events.append(("pop_job", d, op, tuple(st.heap[c2] for _, c2 in job[1])))
                st.events.append(("pop_some", v[1] > 0))
                st.heap[c] = ("deque", z3.If(v[1] > 0, v[1] - 1, 0))
                return ("opt", v[1] > 0, st.alloc(job))
            j = args[1]
            if j[0] != "struct":
                raise Unsupported(f"{op} of something that is not a job tuple ({j[0]})")
            dv = st.heap[dict(j[1])[self.depth_idx]]
            if dv[0] != "int":
                raise Unsupported(f"{op}: the depth component of the pushed job is {dv[0]}, not an integer")
            st.events.append(("push_job", dv[1], op))
            st.heap[c] = ("deque", v[1] + 1)
            return UNIT
        if re.search(r"NonZero::<usize>::new$", f):
            v = args[0]
            if v[0] != "int":
                raise Unsupported("NonZero::new of a non-integer")
            return ("opt", v[1] != 0, st.alloc(I(v[1])))
        if re.search(r"Option::<NonZero<usize>>::unwrap$", f):
            v = args[0]
            if v[0] != "opt":
                raise Unsupported("unwrap of a non-option")
            st.pc.append(v[1])
            return st.heap[v[2]]
        mm = re.search(r"<NonZero<usize> as PartialOrd>::(lt|le|gt|ge)$", f)
        if mm:
            a, b = tcs[0][1], tcs[1][1]
            if a[0] != "int" or b[0] != "int":
                raise Unsupported(f"{f} on {a[0]},{b[0]}")
            return B({"lt": a[1] < b[1], "le": a[1] <= b[1], "gt": a[1] > b[1], "ge": a[1] >= b[1]}[mm.group(1)])
        if re.search(r"NonZero::<usize>::get$", f) and args[0][0] != "int":
            raise Unsupported("NonZero::get of a non-integer")
        if re.search(r"DashMap::<&str, .*>::contains_key::<", f):
            b = self.fresh_bool("discovered")
            st.events.append(("contains_key", b))
            return B(b)
        if re.search(r"DashMap::<&str, .*>::insert$", f):
            st.events.append(("discover", args[2] if len(args) > 2 else None))
            return ("opaque", "old")
        if re.search(r"IdSet::contains$", f):
            st.events.append(("ebits_contains",))
            return B(self.fresh_bool("ebit"))
        if re.search(r"VacantEntry::<.*>::insert$", f):
            pv = args[1]
            st.events.append(("parent", st.heap.get(pv[2]) if pv[0] == "opt" else pv, pv[1] if pv[0] == "opt" else None))
            return ("opaque", "refmut")
        if re.search(r"DashMap::<NonZero<u64>, .*>::(insert|remove|alter|get_mut)$|OccupiedEntry::<.*>::(insert|remove|replace_entry)", f):
            st.events.append(("generated_write", f))
            return ("opaque", "w")
        if re.search(r"CheckerVisitor<M>>::visit$", f):
            st.events.append(("visit",))
            return UNIT
        if re.search(r"<M as Model>::actions$", f):
            st.events.append(("actions",))
            return UNIT
        if re.search(r"<M as Model>::within_boundary$", f):
            st.events.append(("within_boundary",))
            return B(self.fresh_bool("wb"))
        if re.search(r"impl \[Property<M>\]>::iter$", f):
            st.events.append(("properties_iter",))
            return ("opaque", "iter")
        if re.search(r"Atomic::<usize>::(fetch_add|compare_exchange|store)$", f):
            return self._fresh_by_type(st, dst_ty, "atomic")
        if re.search(r"as Deref>::deref$|as DerefMut>::deref_mut$", f) and tcs[0][1][0] not in ("deque", "broker"):
            return ("ref", st.alloc(("opaque", "deref")))
        return super().call(st, body, t)


def _params(text):
    hdr = text.split("\n", 1)[0]
    i = hdr.index("(", hdr.index("check_block"))
    j = _matching(hdr, i)
    out = []
    for part in split_top(hdr[i + 1:j]):
        m = re.match(r"\s*_(\d+): (.*)$", part.strip())
        out.append((int(m.group(1)), m.group(2).strip()))
    return out


def _natural_loop(body, head, exclude=()):
    """blocks (non-cleanup) that are reachable from `head` and reach `head` again"""
    fwd = {head}
    stack = [head]
    while stack:
        n = stack.pop()
        for s in _succ(body.blocks[n].term):
            if s not in fwd and s not in exclude and not body.blocks[s].cleanup:
                fwd.add(s)
                stack.append(s)
    pred = {}
    for n in fwd:
        for s in _succ(body.blocks[n].term):
            pred.setdefault(s, set()).add(n)
    back = {head}
    stack = [head]
    while stack:
        n = stack.pop()
        for q in pred.get(n, ()):
            if q not in back and q in fwd:
                back.add(q)
                stack.append(q)
    return back


def _assigned(body, blocks):
    ls = set()
    for n in blocks:
        b = body.blocks[n]
        for a in b.stmts:
            if a.dst.proj and a.dst.proj[0][0] == "deref":
                continue  # a write THROUGH a reference changes the object it points to, not the local
            ls.add(a.dst.local)
        if b.term.kind == "call" and b.term.args["dst"] is not None:
            ls.add(b.term.args["dst"].local)
    return ls


def natural_loops_by_dominators(body):
    """{head: blocks} from back edges n->h with h dominating n (non-cleanup blocks only)"""
    nodes = [n for n, b in body.blocks.items() if not b.cleanup]
    ns = set(nodes)
    succ = {n: [s for s in _succ(body.blocks[n].term) if s in ns] for n in nodes}
    pred = {n: set() for n in nodes}
    for n in nodes:
        for s in succ[n]:
            pred[s].add(n)
    # reachable from entry
    reach, stack = {0}, [0]
    while stack:
        n = stack.pop()
        for s in succ[n]:
            if s not in reach:
                reach.add(s)
                stack.append(s)
    dom = {n: set(reach) for n in reach}
    dom[0] = {0}
    changed = True
    while changed:
        changed = False
        for n in sorted(reach):
            if n == 0:
                continue
            ps = [dom[p] for p in pred[n] if p in reach]
            new = (set.intersection(*ps) if ps else set()) | {n}
            if new != dom[n]:
                dom[n] = new
                changed = True
    loops = {}
    for n in reach:
        for h in succ[n]:
            if h in dom[n]:
                blk = loops.setdefault(h, {h})
                stack = [n]
                while stack:
                    q = stack.pop()
                    if q not in blk:
                        blk.add(q)
                        stack.extend(p for p in pred[q] if p in reach)
    return loops


def explore(name, text, helpers=None, cls=None, precise_loops=False, allow_no_limit=False):
    """Sets up one round of check_block (symbolic job, limit, queue; inner loops havocked) and explores it.
    Returns a dict with the executor, the body, the outcomes and the symbolic parameters."""
    body = parse_body(text)
    bodies = {Executor.short(body): body}
    for hname, htext in (helpers or {}).items():
        if hname not in bodies:
            try:
                bodies[hname] = parse_body(htext)
            except Unsupported:
                pass
    ex = (cls or BlockExecutor)(bodies)
    heads = sorted(h for h in loop_heads(body) if not body.blocks[h].cleanup)
    if not heads:
        raise Unsupported(f"{name} check_block: no loop found")
    loops = {h: _natural_loop(body, h) for h in heads}
    outer = min(h for h in heads if len(loops[h]) == max(len(x) for x in loops.values()))
    loops = {h: (loops[h] if h == outer else _natural_loop(body, h, exclude={outer})) for h in heads}
    if precise_loops:
        pl = natural_loops_by_dominators(body)
        if set(pl) != set(heads):
            raise Unsupported(f"{name} check_block: irreducible control flow (loop heads {sorted(heads)} vs dominator back-edge targets {sorted(pl)})")
        loops = pl
    for h in heads:
        if h != outer and not loops[h] < loops[outer]:
            raise Unsupported(f"{name} check_block: loop at bb{h} is not nested in the main loop at bb{outer}")
    dbg = {}
    for m in re.finditer(r"debug (\w+) => _(\d+);", text):
        dbg.setdefault(m.group(1), int(m.group(2)))  # the first binding is the parameter
    if "pending" not in dbg or ("target_max_depth" not in dbg and not allow_no_limit):
        raise Unsupported(f"{name} check_block: parameters `pending` / `target_max_depth` not found")
    if "target_max_depth" not in dbg:
        dbg = dict(dbg, target_max_depth=-1)  # this checker has no depth limit
    tgt_some, tgt = z3.Bool(f"has_target_max_depth_{name}"), z3.Int(f"target_max_depth_{name}")
    base = [tgt >= 1]
    st = State()
    qlen = z3.Int(f"queue_{name}")
    base.append(qlen >= 0)
    for no, ty in _params(text):
        if no == dbg["target_max_depth"]:
            if "Option<" not in ty or "NonZero<usize>" not in ty:
                raise Unsupported(f"target_max_depth has type {ty}")
            v = ("opt", tgt_some, st.alloc(I(tgt)))
        elif no == dbg["pending"]:
            m = re.search(r"VecDeque<\((.*)\)>$", ty)
            if not m:
                raise Unsupported(f"pending has type {ty}")
            ex.job_types = [x.strip() for x in split_top(m.group(1))]
            idx = [i for i, x in enumerate(ex.job_types) if x.replace("std::num::", "") == "NonZero<usize>"]
            if len(idx) != 1:
                raise Unsupported(f"cannot identify the depth component of a job in {ex.job_types}")
            ex.depth_idx = idx[0]
            v = ("ref", st.alloc(("deque", qlen)))
        elif ty == "usize":
            x = z3.Int(f"p{no}_{name}")
            base.append(x >= 0)
            v = I(x)
        elif ty == "bool":
            v = B(z3.Bool(f"p{no}_{name}"))
        elif ty.startswith("&") and "Option<Box<dyn" in ty:
            v = ("ref", st.alloc(("opt", z3.Bool(f"has_visitor_{name}"), st.alloc(("opaque", "visitor")))))
        elif ty.startswith("&"):
            v = ("ref", st.alloc(("opaque", ty[:40])))
        else:
            v = ("opaque", ty[:40])
        st.locals[no] = st.alloc(v)
    ex.pending_local = None
    ex.base_constraints = list(base)
    ex.stop_blocks = {outer}
    ex.loop_havoc = {}
    pro = ex.run(body, st, 0)
    pro = [o for o in pro if o.kind == "reach"]
    if len(pro) != 1:
        raise Unsupported(f"{name} check_block: prologue does not reach the main loop on a single path")
    s0 = pro[0].st.clone()
    s0.pc, s0.events, s0.steps = [], [], 0
    ex.apply_havoc(s0, body, _assigned(body, loops[outer]))
    ex.loop_havoc = {h: _assigned(body, loops[h]) for h in heads if h != outer}
    outs = ex.run(body, s0, outer)
    return {"ex": ex, "body": body, "outs": outs, "base": base, "heads": heads, "loops": loops, "outer": outer, "dbg": dbg,
            "tgt_some": tgt_some, "tgt": tgt, "text": text}


def obligations(name, text, fifo=False, witness=False, helpers=None):
    X = explore(name, text, helpers)
    ex, body, outs, base, heads, outer, tgt_some, tgt = X["ex"], X["body"], X["outs"], X["base"], X["heads"], X["outer"], X["tgt_some"], X["tgt"]
    res = []

    def add(ob, r, **kw):
        res.append({"obligation": f"{name} check_block: {ob}", "result": "unsat" if r == z3.unsat else ("sat" if r == z3.sat else str(r)), **kw})

    n_eval = n_skip = n_push = 0
    for i, o in enumerate(outs):
        if o.kind == "panic":
            continue
        if o.kind not in ("reach", "return", "cut"):
            raise Unsupported(f"{name} check_block: unexpected path end {o.kind}")
        st = o.st
        g = z3.And(*st.pc) if st.pc else z3.BoolVal(True)
        pops = [e for e in st.events if e[0] == "pop_job"]
        if len(pops) > 1:
            raise Unsupported("more than one job popped in one round")
        if not pops:
            continue
        d = pops[0][1]
        ev = [e for e in st.events if e[0] in EVAL_EVENTS]
        tagp = f"path {i} [" + ",".join(e[0] for e in st.events) + f"]->{o.kind}"

        def wit(m):
            return {"checker": name, "depth": m.eval(d, model_completion=True).as_long(), "target_max_depth": (m.eval(tgt, model_completion=True).as_long() if z3.is_true(m.eval(tgt_some, model_completion=True)) else None)}

        # was a job really popped on this path? (the None arm of pop leaves the loop)
        if not ev:
            if o.kind == "cut":
                continue
            # skipped (or queue empty): with a job in hand, only the depth limit may skip it
            got = [c for c in st.pc]  # path condition already says whether pop returned Some
            r, m = _check(base, g, z3.BoolVal(True))
            if r != z3.sat:
                continue
            # does this path hold a job?  the Some-arm constraint is `len > 0` of the queue before pop
            n_skip += 1
            r, m = _check(base, g, _popped_some(st), z3.Not(z3.And(tgt_some, d >= tgt)))
            add(f"{tagp}: a popped job is skipped only when target_max_depth is set and its depth has reached it (every state nearer than the limit is evaluated)", r, **({"witness": wit(m)} if m is not None else {}))
        else:
            n_eval += 1
            r, m = _check(base, g, tgt_some, d > tgt)
            add(f"{tagp}: an evaluated job is not deeper than target_max_depth", r, **({"witness": wit(m)} if m is not None else {}))
            for e in st.events:
                if fifo and e[0] in ("pop_job", "push_job"):
                    want = "pop_back" if e[0] == "pop_job" else "push_front"
                    r, _ = (z3.unsat, None) if e[2] == want else _check(base, g)
                    add(f"{tagp}: first-in first-out queue discipline: jobs are taken with pop_back and successors queued with push_front ({e[0]} uses {e[2]})", r)
                if witness and e[0] == "generated_write":
                    r, _ = _check(base, g)
                    add(f"{tagp}: the parent pointer of an already generated state is never rewritten ({e[1][:60]})", r)
                if witness and e[0] == "parent":
                    fp_ok = any(e[1] == comp for comp in pops[0][3])
                    r, _ = (z3.unsat, None) if fp_ok and (e[2] is None or z3.is_true(z3.simplify(e[2]))) else _check(base, g)
                    add(f"{tagp}: a newly generated state gets the job being evaluated as its parent", r)
                if e[0] == "push_job":
                    n_push += 1
                    r, m = _check(base, g, e[1] != d + 1)
                    add(f"{tagp}: a successor is queued with the depth of its predecessor plus one", r, **({"witness": dict(wit(m), pushed_depth=m.eval(e[1], model_completion=True).as_long())} if m is not None else {}))
    if witness:
        n_disc = 0
        for i, o in enumerate(outs):
            if o.kind == "panic":
                continue
            st = o.st
            g = z3.And(*st.pc) if st.pc else z3.BoolVal(True)
            pops = [e for e in st.events if e[0] == "pop_job"]
            if not pops:
                continue
            tagp = f"path {i}->{o.kind}"
            last_ck, last_kind = None, None
            for e in st.events:
                if e[0] == "contains_key":
                    last_ck, last_kind = e[1], "ck"
                elif e[0] == "ebits_contains":
                    last_kind = "ebits"
                elif e[0] == "discover":
                    fp_ok = any(e[1] == comp for comp in pops[0][3])
                    r, _ = (z3.unsat, None) if fp_ok else _check(base, g)
                    add(f"{tagp}: a discovery is recorded with the fingerprint of the job being evaluated", r)
                    if last_kind == "ck":
                        n_disc += 1
                        r, _ = _check(base, g, last_ck)
                        add(f"{tagp}: an always/sometimes discovery is recorded only while the property has none yet (the first witness wins)", r)
                    elif last_kind != "ebits":
                        n_disc += 1
                        r, _ = _check(base, g)
                        add(f"{tagp}: an always/sometimes discovery is recorded only while the property has none yet (the first witness wins)", r)
        if n_disc == 0:
            raise Unsupported(f"{name} check_block: no discovery site recognised")
    if n_eval == 0 or n_skip == 0 or n_push == 0:
        raise Unsupported(f"{name} check_block: shape not recognised (evaluating paths {n_eval}, skipping paths {n_skip}, pushes {n_push})")
    info = {"function": body.name, "blocks": len(body.blocks), "main_loop": f"bb{outer}", "inner_loops_havocked": [f"bb{h}" for h in heads if h != outer], "round_paths": len(outs),
            "opaque_callees": sorted(ex.opaque_calls)[:40], "z3_feasibility_queries": ex.queries}
    return res, info


def _popped_some(st):
    """the condition under which pop returned a job on this path: recorded when the option was built"""
    for e in st.events:
        if e[0] == "pop_some":
            return e[1]
    return z3.BoolVal(True)


def initial_depth(name, mir_text):
    """The closure(s) of `spawn` that build the initial jobs: the depth component is 1."""
    res = []
    for f in split_functions(mir_text):
        hdr = f.split("\n", 1)[0]
        if not re.match(rf"^fn (?:checker::)?{name}::<impl at src/checker/{name}\.rs[^>]*>::spawn::\{{closure#\d+\}}\(", hdr):
            continue
        ret = hdr.rsplit(" -> ", 1)[-1].rstrip(" {")
        if not (ret.startswith("(") and "NonZero<usize>" in ret):
            continue
        comps = [x.strip() for x in split_top(ret[1:_matching(ret, 0)])]
        idx = [i for i, x in enumerate(comps) if x.replace("std::num::", "") == "NonZero<usize>"]
        if len(idx) != 1:
            continue
        body = parse_body(f)
        ex = BlockExecutor({Executor.short(body): body})
        ex.job_types, ex.depth_idx = comps, idx[0]
        st = State()
        for no in body.params:
            st.locals[no] = st.alloc(("ref", st.alloc(("opaque", "env"))) if no == 1 else ("opaque", "state"))
        outs = [o for o in ex.run(body, st, 0) if o.kind == "return"]
        if not outs:
            raise Unsupported(f"{name} spawn closure building the initial jobs: no returning path")
        for o in outs:
            rv = o.info.get("ret")
            if rv is None or rv[0] != "struct":
                raise Unsupported("initial job is not a tuple")
            dv = o.st.heap[dict(rv[1])[idx[0]]]
            if dv[0] != "int":
                raise Unsupported("depth of the initial job is not an integer")
            g = z3.And(*o.st.pc) if o.st.pc else z3.BoolVal(True)
            r, m = _check([], g, dv[1] != 1)
            res.append({"obligation": f"{name} spawn: an initial state is queued with depth 1", "result": "unsat" if r == z3.unsat else ("sat" if r == z3.sat else str(r)),
                        **({"witness": {"checker": name, "initial_depth": m.eval(dv[1], model_completion=True).as_long()}} if m is not None else {})})
    if not res:
        raise Unsupported(f"{name}: the closure of spawn() that builds the initial jobs was not found")
    return res
