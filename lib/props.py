"""Per-property configuration of the checks (what is encoded, bounds, assumptions)."""

COMMON_ASSUME = [
    "crate `log` replaced by a model whose macros expand to nothing (logging has no effect on behaviour)",
    "crate `parking_lot` replaced by a sequential model (never exercised by these harnesses)",
    "Kani's panic=abort semantics; every loop fully unwound (unwinding assertions on)",
]

PROPS = {
    "C20": {
        "engine": "kani",
        "files": ["common.rs", "c20.rs"],
        "explanation": (
            "Bounded symbolic model checking (Kani/CBMC) of the real VectorClock and DenseNatMap code: for every "
            "length combination up to the bound and ALL u32 component values the solver decides == and partial_cmp "
            "against the zero-padded product-order oracle, the order laws stated directly (reflexive, antisymmetric, "
            "transitive on triples), merge_max = least upper bound (vs. an arbitrary third clock), incremented strictly "
            "greater, hash/equality coherence through a recording Hasher; for DenseNatMap<Id,u8>: from_iter over every "
            "key permutation, rejection of every gap/duplicate (must-not-return), insert/get/iter/values/Index/into_iter "
            "against the underlying vector, rewrite under every plan produced by sorting 3 values with ties."
        ),
        "bounds": {"clock_len": "0..=3 (thorough: 0..=4 for pairs)", "components": "full u32", "map_len": "0..=3", "unwind": "6-26"},
        "outside": ["clocks/maps longer than the bound", "incremented at component value u32::MAX (debug panics / release wraps; documented boundary)", "Display, serde"],
        "assumptions": COMMON_ASSUME + ["incremented: component < u32::MAX"],
    },
    "C15": {
        "engine": "kani",
        "files": ["c15.rs"],
        "explanation": (
            "Bounded symbolic model checking (Kani/CBMC) of the real adapter code: a probe actor whose behaviour "
            "(write state or not, 0-2 commands of any kind with symbolic payloads) is chosen by the solver is run for one "
            "handler step bare and inside each adapter - Choice<P,Never>, Choice<P,Q> (L), Choice<Q,P> (R), the 3-level "
            "nesting of choice!, RegisterActor::Server, WORegisterActor::Server - for every event kind (start, msg, timeout, "
            "random), every id/src/message/timer/random value and every wrapped pre-state; asserted: same arguments seen, same "
            "resulting state, Borrowed stays Borrowed (no-op detection), same commands in the same order, name forwarded. "
            "Adapters hold no state, so one step covers executions of any length. Scripted Vec client: every script of "
            "length <=3, every position: sends exactly the next entry, advances by one, nothing after the end."
        ),
        "bounds": {"commands_per_handler": "0..=2", "nesting": "<=3", "script_len": "0..=3", "alphabets": "u8 timers/randoms; u8 / RegisterMsg<u64,char,u8> / WORegisterMsg<u64,char,u8> messages; Id over all usize", "unwind": 4},
        "outside": ["isomorphism of whole reachable state spaces (follows from the step lemma; not re-checked by running a checker)", "Choice nestings deeper than 3", "ChooseRandom keys other than 1-byte strings"],
        "assumptions": COMMON_ASSUME,
    },
    "C17": {
        "engine": "kani",
        "files": ["c17.rs"],
        "explanation": (
            "Bounded symbolic model checking (Kani/CBMC) of the two real From impls in src/actor/spawn.rs over the FULL input "
            "space: every u64 id below 2^48 round-trips through SocketAddrV4 and has exactly its bytes as octets/port; every "
            "(a,b,c,d,port) round-trips through Id and yields a 48-bit id; two ids map to the same address exactly when their low "
            "48 bits agree (injectivity both ways). Loop-free bit-vector code, no unwinding bound needed."
        ),
        "bounds": {"ids": "all u64 (bijection asserted on ids < 2^48)", "addresses": "all 2^48 IPv4 socket addresses"},
        "outside": ["the UDP runtime loop of spawn(): sockets, OS clock, rand::thread_rng, crossbeam scoped threads (on_start ordering, datagram routing, timer arming/cancelling, state threading) - not symbolically executable"],
        "assumptions": COMMON_ASSUME,
    },
    "C18": {
        "engine": "kani",
        "files": ["c18.rs"],
        "explanation": (
            "Bounded symbolic model checking (Kani/CBMC) of the real specs and harness actors: for Register<u8>, WORegister<u8> and "
            "Vec<u8> (length 0..=3), every object, operation and candidate return: is_valid_step == (invoke(op) == ret) and an accepted "
            "step leaves the state invoke leaves; is_valid_history over every op/ret sequence of length <=3 equals the fold of invoke. "
            "Client protocol of RegisterActor/WORegisterActor: start-up and ONE INDUCTIVE STEP from every client state satisfying the "
            "invariant (awaiting=Some(r) => r=op_count*index) and every incoming message: at most one request, only on the matching "
            "reply, to a server, with the fresh strictly larger id (op_count+1)*index; anything else is a no-op. Recording hooks "
            "record_invocations/record_returns run against a recording ConsistencyTester: exactly Put/Get become invocations by the "
            "sender, exactly PutOk/PutFail/GetOk returns to the receiver, the given history is never altered."
        ),
        "bounds": {"values": "u8 (specs), char (hooks)", "vec_len": "0..=3", "history_len": "0..=3", "put_count": "<= 2^16", "server_count": "1..=2^16", "clients": "index - server_count < 26 (values are letters)", "op_count": "<= 2^16+2", "unwind": "3-6"},
        "outside": ["state of the object after a REJECTED step (the override and invoke legitimately differ there; testers discard the object)", "whole-model histories with the real Linearizability/SequentialConsistency testers (BTreeMap-bound, see C08/C14)", "specs over other value types"],
        "assumptions": COMMON_ASSUME + ["clients are added after servers (documented; the opposite is checked to be rejected)", "at most 26 clients (documented value scheme 'A'+k / 'Z'-k)"],
    },
}
