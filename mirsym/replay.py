"""Native replay of a BMC counterexample: a generated Rust test drives the REAL JobBroker (real
parking_lot, pristine sources) from real threads gated by a turnstile so that the critical sections
occur in the model's order, then lets every worker run the real worker loop to completion.
The test fails (= violation reproduced) if a worker never returns (deadlock / lost wake-up) or if,
although nobody asked to stop, some job was never processed (lost work) or processed twice."""
import json
import os
import re
import subprocess

TEMPLATE = r'''
#[cfg(test)]
mod verif_replay {
    use super::*;
    use std::sync::atomic::{AtomicUsize, Ordering};
    use std::sync::mpsc::{channel, Receiver, Sender};
    use std::sync::Mutex as StdMutex;
    use std::time::Duration;

    #[derive(Clone, Copy, Debug)]
    enum Cmd { Pop, Work(usize, usize), Split, DropBroker, Drain }
    #[derive(Debug, PartialEq)]
    enum Rep { Popped(usize), Worked, Split(usize), Done }

    fn worker(mut broker: JobBroker<usize>, rx: Receiver<Cmd>, tx: Sender<Rep>, next_id: Arc<AtomicUsize>, processed: Arc<StdMutex<Vec<usize>>>) {
        let mut pending: VecDeque<usize> = VecDeque::new();
        loop {
            match rx.recv() {
                Ok(Cmd::Pop) => { pending = broker.pop(); let _ = tx.send(Rep::Popped(pending.len())); }
                Ok(Cmd::Work(c, g)) => {
                    for _ in 0..c { if let Some(j) = pending.pop_back() { processed.lock().unwrap().push(j); } }
                    for _ in 0..g { pending.push_front(next_id.fetch_add(1, Ordering::SeqCst)); }
                    let _ = tx.send(Rep::Worked);
                }
                Ok(Cmd::Split) => { broker.split_and_push(&mut pending); let _ = tx.send(Rep::Split(pending.len())); }
                Ok(Cmd::DropBroker) => { drop(broker); let _ = tx.send(Rep::Done); return; }
                Ok(Cmd::Drain) => {
                    // the worker loop of the checkers, without generating new work
                    loop {
                        if pending.is_empty() { pending = broker.pop(); if pending.is_empty() { break; } }
                        if let Some(j) = pending.pop_back() { processed.lock().unwrap().push(j); }
                        if pending.len() > 1 { broker.split_and_push(&mut pending); }
                    }
                    drop(broker); let _ = tx.send(Rep::Done); return;
                }
                Err(_) => return,
            }
        }
    }

    #[test]
    fn verif_replay_schedule() {
        const T: usize = @T@;
        const P0: usize = @P0@;
        let stop_requested: bool = @STOP@;
        let mut main_broker: JobBroker<usize> = JobBroker::new(T, None);
        main_broker.push((0..P0).collect());
        let next_id = Arc::new(AtomicUsize::new(P0));
        let processed = Arc::new(StdMutex::new(Vec::new()));
        let mut txs = Vec::new();
        let mut rxs = Vec::new();
        for t in 0..T {
            let (ctx, crx) = channel();
            let (rtx, rrx) = channel();
            let b = main_broker.clone();
            let (n, p) = (Arc::clone(&next_id), Arc::clone(&processed));
            std::thread::Builder::new().name(format!("replay-{}", t)).spawn(move || worker(b, crx, rtx, n, p)).unwrap();
            txs.push(ctx);
            rxs.push(rrx);
        }
        let mut done = vec![false; T];
        let mut blocked = vec![false; T];
        let quick = Duration::from_millis(250);
        let long = Duration::from_millis(3000);
        // (thread, move, a, b): move 0 pop->blocks, 1 pop->returns a jobs, 2 resume->blocks again,
        // 3 resume->returns a jobs, 4 work(a consumed, b generated), 5 split (a = local after), 6 drop
        let schedule: &[(usize, u8, usize, usize)] = &[@SCHEDULE@];
        for (i, &(t, mv, a, b)) in schedule.iter().enumerate() {
            match mv {
                0 | 1 => {
                    txs[t].send(Cmd::Pop).unwrap();
                    let r = rxs[t].recv_timeout(if mv == 0 { quick } else { long });
                    if mv == 0 {
                        assert!(r.is_err(), "DIVERGENCE step {}: model says pop blocks, real pop returned {:?}", i, r);
                        blocked[t] = true;
                    } else {
                        assert_eq!(r.ok(), Some(Rep::Popped(a)), "DIVERGENCE step {}: pop result", i);
                    }
                }
                2 | 3 => {
                    let r = rxs[t].recv_timeout(if mv == 2 { quick } else { long });
                    if mv == 2 {
                        assert!(r.is_err(), "DIVERGENCE step {}: model says the woken pop waits again, real pop returned {:?}", i, r);
                    } else {
                        assert_eq!(r.ok(), Some(Rep::Popped(a)), "DIVERGENCE step {}: woken pop result", i);
                        blocked[t] = false;
                    }
                }
                4 => { txs[t].send(Cmd::Work(a, b)).unwrap(); assert_eq!(rxs[t].recv_timeout(long).ok(), Some(Rep::Worked)); }
                5 => { txs[t].send(Cmd::Split).unwrap(); assert_eq!(rxs[t].recv_timeout(long).ok(), Some(Rep::Split(a)), "DIVERGENCE step {}: split_and_push result", i); }
                6 => { txs[t].send(Cmd::DropBroker).unwrap(); assert_eq!(rxs[t].recv_timeout(long).ok(), Some(Rep::Done)); done[t] = true; }
                _ => unreachable!(),
            }
        }
        // let everybody finish on their own: the real worker loop
        for t in 0..T { if !done[t] { let _ = txs[t].send(Cmd::Drain); } }
        let mut stuck = Vec::new();
        for t in 0..T {
            if done[t] { continue; }
            loop {
                match rxs[t].recv_timeout(long) {
                    Ok(Rep::Done) => break,
                    Ok(_) => continue, // the reply of a pop that was blocked
                    Err(_) => { stuck.push(t); break; }
                }
            }
        }
        let created = next_id.load(Ordering::SeqCst);
        let mut seen = processed.lock().unwrap().clone();
        seen.sort();
        let n_proc = seen.len();
        seen.dedup();
        let verdict_deadlock = !stuck.is_empty();
        let verdict_dup = seen.len() != n_proc;
        let verdict_lost = !stop_requested && stuck.is_empty() && seen.len() != created;
        drop(main_broker); // releases any thread still blocked, so the test process can exit
        assert!(!verdict_deadlock, "VIOLATION deadlock / lost wake-up: workers {:?} never returned although work or shutdown was pending", stuck);
        assert!(!verdict_dup, "VIOLATION a job was handed to two workers: {} processed, {} distinct", n_proc, seen.len());
        assert!(!verdict_lost, "VIOLATION lost work: {} jobs created, {} processed, nobody asked to stop", created, seen.len());
    }
}
'''


def schedule_rows(trace):
    rows = []
    for st in trace:
        t, mv = st["thread"], st["move"]
        if mv == "pop":
            rows.append((t, 0 if st["result"] == "blocks" else 1, st["len"], 0))
        elif mv == "pop_resume":
            rows.append((t, 2 if st["result"] == "blocks" else 3, st["len"], 0))
        elif mv == "work":
            rows.append((t, 4, st["consume"], st["generate"]))
        elif mv == "split" or (mv == "split_or_continue" and st.get("shares")):
            rows.append((t, 5, st["local_after"], 0))
        elif mv == "drop":
            rows.append((t, 6, 0, 0))
        # finish / continue: no broker call
    return rows


def write_replay(path, cex):
    with open(path, "w") as f:
        json.dump(cex, f, indent=1)


def run_replay(sr_pristine, cex, timeout=600):
    """Appends the generated test to src/job_market.rs of a pristine scratch copy and runs it."""
    rows = schedule_rows(cex["trace"])
    stop = any(s["move"] == "finish" for s in cex["trace"]) or bool(cex["states"][-1].get("stop"))
    code = (TEMPLATE.replace("@T@", str(cex["T"])).replace("@P0@", str(cex["P0"])).replace("@STOP@", "true" if stop else "false")
            .replace("@SCHEDULE@", ", ".join(f"({t}, {m}, {a}, {b})" for t, m, a, b in rows)))
    p = os.path.join(sr_pristine, "src", "job_market.rs")
    orig = open(p).read()
    try:
        open(p, "w").write(orig + "\n" + code)
        env = dict(os.environ)
        env["CARGO_NET_OFFLINE"] = "true"
        env["CARGO_TARGET_DIR"] = os.path.join(os.path.dirname(sr_pristine), "target-replay")
        r = subprocess.run(["cargo", "test", "--lib", "--offline", "verif_replay_schedule", "--", "--nocapture"], cwd=sr_pristine, env=env,
                           stdout=subprocess.PIPE, stderr=subprocess.STDOUT, text=True, timeout=timeout)
        out = r.stdout
        if re.search(r"VIOLATION (deadlock|a job was handed|lost work)", out):
            return True, out[-3000:]
        if "DIVERGENCE" in out:
            return None, out[-3000:]
        if re.search(r"test result: ok\. 1 passed", out):
            return False, out[-1500:]
        return None, out[-3000:]
    finally:
        open(p, "w").write(orig)
