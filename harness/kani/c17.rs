//! C17 — `Id` <-> IPv4 socket address conversion is a bijection on 48-bit ids.
//! Functions encoded: `impl From<Id> for SocketAddrV4`, `impl From<SocketAddrV4> for Id`
//! (src/actor/spawn.rs).  Loop-free bit-vector code over the full input space.
use crate::actor::Id;
use std::net::{Ipv4Addr, SocketAddrV4};

/// For every 48-bit id: id -> addr -> id is the identity, and the address has exactly the bytes
/// of the id (big endian: 4 address octets, then 2 port bytes).
#[kani::proof]
fn c17_id_addr_id() {
    let x: u64 = kani::any();
    kani::assume(x < (1u64 << 48));
    let id = Id::from(x as usize);
    let addr = SocketAddrV4::from(id);
    let back = Id::from(addr);
    assert!(back == id, "C17 Id -> SocketAddrV4 -> Id is the identity on 48-bit ids");
    let b = x.to_be_bytes();
    assert!(addr.ip().octets() == [b[2], b[3], b[4], b[5]], "C17 address octets are bytes 2..6 of the id");
    assert!(addr.port() == u16::from_be_bytes([b[6], b[7]]), "C17 port is the low 16 bits of the id");
    kani::cover!(x > (1u64 << 40), "large id");
}

/// For every IPv4 socket address: addr -> id -> addr is the identity and the id is below 2^48.
#[kani::proof]
fn c17_addr_id_addr() {
    let o: [u8; 4] = kani::any();
    let port: u16 = kani::any();
    let addr = SocketAddrV4::new(Ipv4Addr::new(o[0], o[1], o[2], o[3]), port);
    let id = Id::from(addr);
    let back = SocketAddrV4::from(id);
    assert!(back.ip().octets() == o && back.port() == port, "C17 SocketAddrV4 -> Id -> SocketAddrV4 is the identity");
    assert!(usize::from(id) < (1usize << 48), "C17 ids derived from addresses are 48-bit");
    kani::cover!(port > 1000 && o[0] == 127, "loopback high port");
}

/// Injectivity in both directions (distinct ids below 2^48 give distinct addresses and vice
/// versa); ids that differ only in the top 16 bits map to the same address, which is why the
/// bijection is stated on 48-bit ids.
#[kani::proof]
fn c17_injective() {
    let x: u64 = kani::any();
    let y: u64 = kani::any();
    let ax = SocketAddrV4::from(Id::from(x as usize));
    let ay = SocketAddrV4::from(Id::from(y as usize));
    let same_addr = ax.ip().octets() == ay.ip().octets() && ax.port() == ay.port();
    let mask = (1u64 << 48) - 1;
    assert!(same_addr == ((x & mask) == (y & mask)), "C17 addresses equal exactly when the low 48 bits agree");
    kani::cover!(same_addr && x != y, "ids differing only above bit 48");
}

/// Vacuity twin.
#[kani::proof]
fn c17_twin_must_fail() {
    let x: u64 = kani::any();
    let id = Id::from(x as usize);
    let back = Id::from(SocketAddrV4::from(id));
    assert!(back == id, "TWIN round trip holds for all 64-bit ids (false)");
}
