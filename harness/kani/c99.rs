use crate::actor::{Network, RandomChoices, Timers, Id};
use std::sync::Arc;
#[kani::proof]
#[kani::unwind(4)]
fn x_timers() { let t: Timers<u8> = Timers::new(); let _ = t.iter().next().is_none(); }
#[kani::proof]
#[kani::unwind(4)]
fn x_timers_vec() { let t: Vec<Timers<u8>> = vec![Timers::new()]; let u = t.clone(); assert!(t == u); }
#[kani::proof]
#[kani::unwind(4)]
fn x_choices() { let t: RandomChoices<u8> = RandomChoices::default(); assert!(t.map.is_empty()); }
#[kani::proof]
#[kani::unwind(4)]
fn x_net() { let n: Network<u8> = Network::new_ordered([]); assert!(n.len() == 0); }
#[kani::proof]
#[kani::unwind(4)]
fn x_arc() { let a = vec![Arc::new(3u8)]; let b = a.clone(); assert!(a == b); }
use super::common::*;
#[kani::proof]
#[kani::unwind(6)]
fn x_hash_timers() { let t: Timers<u8> = Timers::new(); let r = rec_of(&t); assert!(r.n == 0); }
#[kani::proof]
#[kani::unwind(3)]
fn x_hash_timers2() { let t: Vec<Timers<u8>> = vec![Timers::new(), Timers::new()]; let r = rec_of(&t); assert!(r.n == 8); }
#[kani::proof]
#[kani::unwind(6)]
fn x_hash_net() { let n: Network<u8> = Network::new_ordered([]); let r = rec_of(&n); assert!(r.n == 16); }
#[kani::proof]
#[kani::unwind(6)]
fn x_eq_net() { let n: Network<u8> = Network::new_ordered([]); let m: Network<u8> = Network::new_ordered([]); assert!(n == m); }
#[kani::proof]
#[kani::unwind(6)]
fn x_eq_timers() { let t: Vec<Timers<u8>> = vec![Timers::new()]; let u: Vec<Timers<u8>> = vec![Timers::new()]; assert!(t == u); }
#[kani::proof]
#[kani::unwind(6)]
fn y_sort_empty() { let mut v: Vec<u64> = Vec::new(); v.sort_unstable(); assert!(v.is_empty()); }
#[kani::proof]
#[kani::unwind(6)]
fn y_extend_empty() { let t: crate::util::HashableHashSet<u8> = crate::util::HashableHashSet::new(); let mut v: Vec<u64> = Vec::new(); v.extend(t.iter().map(|x| *x as u64)); assert!(v.is_empty()); }
#[kani::proof]
#[kani::unwind(6)]
fn y_refcell() { use std::cell::RefCell; let fresh = RefCell::new(Vec::<u64>::new()); let fallback = RefCell::new(Vec::<u64>::new()); let mut b = fresh.try_borrow_mut().unwrap_or_else(|_| fallback.borrow_mut()); b.clear(); assert!(b.is_empty()); }
#[kani::proof]
#[kani::unwind(6)]
fn z_hash_body_nosort() {
    use std::cell::RefCell;
    let t: crate::util::HashableHashSet<u8> = crate::util::HashableHashSet::new();
    let fresh = RefCell::new(Vec::<u64>::new());
    let fallback = RefCell::new(Vec::<u64>::new());
    let mut buffer = fresh.try_borrow_mut().unwrap_or_else(|_| fallback.borrow_mut());
    buffer.clear();
    buffer.extend(t.iter().map(|v| *v as u64));
    assert!(buffer.is_empty());
}
#[kani::proof]
#[kani::unwind(6)]
fn z_hash_body_sort() {
    use std::cell::RefCell;
    let fresh = RefCell::new(Vec::<u64>::new());
    let mut buffer = fresh.borrow_mut();
    buffer.clear();
    buffer.sort_unstable();
    assert!(buffer.is_empty());
}
#[kani::proof]
#[kani::unwind(6)]
fn z_stable_hasher() {
    use std::hash::{Hash, Hasher};
    let mut inner_hasher = crate::stable::hasher();
    3u8.hash(&mut inner_hasher);
    let _ = inner_hasher.finish();
}
#[kani::proof]
#[kani::unwind(6)]
fn w_two_new() { let a: Timers<u8> = Timers::new(); let b: Timers<u8> = Timers::new(); assert!(a == b); }
#[kani::proof]
#[kani::unwind(6)]
fn w_hash_twice() { let a: Timers<u8> = Timers::new(); let r = rec_of(&a); let r2 = rec_of(&a); assert!(r.n == 0 && r2.n == 0); }
#[kani::proof]
#[kani::unwind(6)]
fn w_hash_pair() { let a: Timers<u8> = Timers::new(); let b: Timers<u8> = Timers::new(); let r = rec_of(&(a, b)); assert!(r.n == 0); }
use crate::actor::Envelope;
#[kani::proof]
#[kani::unwind(4)]
fn n_send_len() { let mut n: Network<u8> = Network::new_unordered_nonduplicating([]); n.send(Envelope{src: Id::from(0usize), dst: Id::from(1usize), msg: kani::any()}); assert!(n.len() == 1); }
#[kani::proof]
#[kani::unwind(4)]
fn n_send_iterd() { let mut n: Network<u8> = Network::new_unordered_nonduplicating([]); n.send(Envelope{src: Id::from(0usize), dst: Id::from(1usize), msg: kani::any()}); let mut it = n.iter_deliverable(); assert!(it.next().is_some()); assert!(it.next().is_none()); }
#[kani::proof]
#[kani::unwind(4)]
fn n_send_itera() { let mut n: Network<u8> = Network::new_unordered_nonduplicating([]); n.send(Envelope{src: Id::from(0usize), dst: Id::from(1usize), msg: kani::any()}); let mut it = n.iter_all(); assert!(it.next().is_some()); assert!(it.next().is_none()); }
use crate::util::HashableHashMap;
#[kani::proof]
#[kani::unwind(4)]
fn q_build_only() { let mut m: HashableHashMap<Envelope<u8>, usize> = HashableHashMap::with_hasher(crate::stable::build_hasher()); m.insert(Envelope{src: Id::from(0usize), dst: Id::from(1usize), msg: kani::any()}, 2usize); assert!(m.len() == 1); }
#[kani::proof]
#[kani::unwind(4)]
fn q_build_default() { let mut m: HashableHashMap<Envelope<u8>, usize> = HashableHashMap::new(); m.insert(Envelope{src: Id::from(0usize), dst: Id::from(1usize), msg: kani::any()}, 2usize); assert!(m.len() == 1); }
#[kani::proof]
#[kani::unwind(4)]
fn q_net_len() { let mut m: HashableHashMap<Envelope<u8>, usize> = HashableHashMap::new(); m.insert(Envelope{src: Id::from(0usize), dst: Id::from(1usize), msg: kani::any()}, 2usize); let n = Network::UnorderedNonDuplicating(m); assert!(n.len() == 2); }
#[kani::proof]
#[kani::unwind(4)]
fn q_entry() { let mut m: HashableHashMap<Envelope<u8>, usize> = HashableHashMap::new(); *m.entry(Envelope{src: Id::from(0usize), dst: Id::from(1usize), msg: kani::any()}).or_insert(0) += 1; assert!(m.len() == 1); }
#[kani::proof]
#[kani::unwind(4)]
fn q_new_net() { let n: Network<u8> = Network::new_unordered_nonduplicating([]); assert!(n.len() == 0); }
#[kani::proof]
#[kani::unwind(4)]
fn q_send_direct() { let mut n: Network<u8> = Network::UnorderedNonDuplicating(HashableHashMap::new()); n.send(Envelope{src: Id::from(0usize), dst: Id::from(1usize), msg: kani::any()}); assert!(n.len() == 1); }
