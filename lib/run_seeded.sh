#!/bin/bash
# usage: run_seeded.sh <seeded-id> <property> [tier] -- runs the property's check against a scratch worktree of /repo with the
# seeded patch applied (never touches /repo itself); evidence/replays go to a scratch dir. Prints DETECTED / MISSED / INCONCLUSIVE.
ID=$1; PROP=$2; TIER=${3:-quick}
WT=/tmp/seedrun-$ID
git -C /repo worktree remove --force $WT 2>/dev/null
git -C /repo worktree add -q --detach $WT HEAD || exit 3
( cd $WT && git apply /verif/seeded/$ID/patch.diff ) || { echo "SEEDED $ID $PROP: patch does not apply"; git -C /repo worktree remove --force $WT; exit 3; }
mkdir -p /tmp/seedrun-out/$ID
cp /repo/Cargo.lock $WT/ 2>/dev/null; VERIF_REPO=$WT VERIF_EVIDENCE_DIR=/tmp/seedrun-out/$ID VERIF_REPLAY_DIR=/tmp/seedrun-out/$ID/replays VERIF_SCRATCH_TAG=-seed-$ID /verif/bin/check $PROP --tier $TIER > /tmp/seedrun-out/$ID/$PROP.out 2>&1
rc=$?
git -C /repo worktree remove --force $WT
case $rc in
 1) echo "SEEDED $ID $PROP: DETECTED ($(grep -c '^VIOLATION' /tmp/seedrun-out/$ID/$PROP.out) violation lines; $(grep '  failed:' /tmp/seedrun-out/$ID/$PROP.out | head -2 | cut -c1-160 | tr '\n' '|'))";;
 0) echo "SEEDED $ID $PROP: MISSED";;
 *) echo "SEEDED $ID $PROP: INCONCLUSIVE rc=$rc ($(grep '^INCONCLUSIVE' /tmp/seedrun-out/$ID/$PROP.out | head -2 | cut -c1-200 | tr '\n' '|'))";;
esac
