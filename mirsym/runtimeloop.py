"""The per-actor thread of the UDP runtime (`spawn::spawn::{closure#0}::{closure#0}` in
src/actor/spawn.rs), from its MIR: which handler is called when, with which arguments.

The closure is executed with the lenient executor (every callee arbitrary, loops havocked).  Values
returned by the interesting calls are distinct opaque objects, and every projection of an opaque
object is itself a distinct opaque object whose provenance (parent, projection) is recorded - so
"the message handed to on_msg is the payload of the Ok result of deserialize" is a statement about
object identity on each path.  z3 decides path feasibility.

Obligations:
  U1  start-up: the socket is bound, then `on_start` is called exactly once, before the receive loop
      and before any other handler; the loop never calls `on_start`
  U2  one loop round calls at most one handler
  U3  `on_msg` is called only after `recv_from` and `deserialize` on that round, with the actor's own
      id, the message that `deserialize` returned (its Ok payload) and the Id made by `Id::from` of the
      IPv4 source address that `recv_from` returned
  U4  `on_timeout` / `on_random` are called only on the branch where the earliest deadline has passed
      (`checked_duration_since` gave None: no receive on that round), after that interrupt was removed
      from the pending set, with the actor's own id
  U5  every handler is handed the same `state` cell (the one initialised from `on_start`'s result),
      and the commands of every round are applied through `on_command`
"""
import re
import z3

from mir import parse_body, split_functions, Unsupported
from symex import Executor, State
from blockloop import BlockExecutor, _natural_loop, _assigned
from workerloop import loop_heads, _check

HANDLERS = ("on_msg", "on_timeout", "on_random")


def find_runtime_closure(mir_text):
    for f in split_functions(mir_text):
        hdr = f.split("\n", 1)[0]
        if re.match(r"^fn (?:actor::)?spawn::spawn::\{closure#\d+\}::\{closure#\d+\}\(", hdr) and "as actor::Actor>::on_start" in f:
            return f
    return None


class RtExecutor(BlockExecutor):
    def __init__(self, bodies):
        super().__init__(bodies)
        self.prov = {}

    def _uniq(self, st, tag):
        return ("opaque", f"{tag}#{next(self.fresh)}")

    def cell_of(self, st, place, create=True):
        # as BlockExecutor.cell_of, but remember where an opaque projection came from
        before = set(k for k in st.handles if isinstance(k, tuple) and k and k[0] == "proj")
        c = super().cell_of(st, place, create)
        for k in st.handles:
            if isinstance(k, tuple) and k and k[0] == "proj" and k not in before:
                parent = st.heap.get(k[1], ("?",))
                child = st.heap[st.handles[k]]
                self.prov[child[1]] = (parent[1] if parent[0] == "opaque" else parent[0], ":".join(str(x) for x in k[2]))
        return c

    def origin(self, v):
        """'root/proj/proj...' of an opaque value"""
        if v[0] == "ref":
            return "ref"
        if v[0] != "opaque":
            return v[0]
        name, path = v[1], []
        while name in self.prov:
            name, p = self.prov[name]
            path.append(p)
        return "/".join([str(name)] + list(reversed(path)))

    def call(self, st, body, t):
        f = t.args["func"]
        args = [self.read(st, a) for a in t.args["args"]]
        m = re.search(r"as actor::Actor>::(on_start|on_msg|on_timeout|on_random)$", f)
        if m:
            st.events.append((m.group(1), args))
            return self._uniq(st, "state0") if m.group(1) == "on_start" else ("opaque", "unit")
        if re.match(r"^(move|copy) _\d+$", f):
            fld = None
            c = self.cell_of(st, body.blocks[0].stmts[0].dst) if False else None
            ret = self._uniq(st, "fnptr")
            st.events.append(("fnptr", args, ret))
            return ret
        for pat, tag in ((r"UdpSocket::bind::<", "bind"), (r"UdpSocket::recv_from$", "recv"), (r"<actor::Id as From<SocketAddrV4>>::from$", "id_from"),
                         (r"Instant::checked_duration_since$", "cds"), (r"HashMap::<Interrupt<.*>::remove::<", "remove_interrupt"), (r"^on_command::<", "on_command"),
                         (r"UdpSocket::set_read_timeout$", "set_read_timeout")):
            if re.search(pat, f):
                ret = self._uniq(st, tag)
                st.events.append((tag, args, ret))
                return ret
        return super().call(st, body, t)


def obligations(mir_text):
    text = find_runtime_closure(mir_text)
    if text is None:
        raise Unsupported("the per-actor thread closure of actor::spawn::spawn was not found in the MIR")
    body = parse_body(text)
    ex = RtExecutor({Executor.short(body): body})
    ex.job_types, ex.depth_idx = [], None
    dbg_env = {m.group(1): int(m.group(2)) for m in re.finditer(r"debug (\w+) => \(_1\.(\d+): ", text)}
    dbg_loc = {}
    for m in re.finditer(r"debug (\w+) => _(\d+);", text):
        dbg_loc.setdefault(m.group(1), int(m.group(2)))
    for need in ("id", "deserialize"):
        if need not in dbg_env:
            raise Unsupported(f"closure does not capture `{need}`")
    if "state" not in dbg_loc:
        raise Unsupported("no local named `state`")
    heads = sorted(h for h in loop_heads(body) if not body.blocks[h].cleanup)
    loops = {h: _natural_loop(body, h) for h in heads}
    handler_blocks = {n for n, b in body.blocks.items() if b.term.kind == "call" and re.search(r"Actor>::(on_msg|on_timeout|on_random)$", b.term.args["func"])}
    mains = [h for h in heads if handler_blocks and handler_blocks <= loops[h]]
    if not mains:
        raise Unsupported("no loop containing the message/timeout/random handlers found")
    main = max(mains, key=lambda h: len(loops[h]))
    inner = {h: (_natural_loop(body, h, exclude={main}) if h in loops[main] and h != main else loops[h]) for h in heads if h != main}
    st = State()
    cells = []
    nfields = max(dbg_env.values()) + 1
    env_vals = {}
    names = {v: k for k, v in dbg_env.items()}
    for i in range(nfields):
        v = ("opaque", f"env.{names.get(i, i)}")
        env_vals[names.get(i, i)] = v
        cells.append((i, st.alloc(v)))
    st.locals[body.params[0]] = st.alloc(("struct", tuple(cells)))
    for p in body.params[1:]:
        st.locals[p] = st.alloc(("opaque", f"param{p}"))
    res = []

    def add(ob, ok, g, **kw):
        r = z3.unsat if ok else _check([], g)[0]
        res.append({"obligation": "udp runtime: " + ob, "result": "unsat" if r == z3.unsat else ("sat" if r == z3.sat else str(r)), **kw})

    # ---- start-up
    ex.stop_blocks = {main}
    ex.loop_havoc = {h: _assigned(body, inner[h]) for h in inner if h not in loops[main]}
    pro = [o for o in ex.run(body, st, 0) if o.kind != "panic"]
    reach = [o for o in pro if o.kind == "reach"]
    if not reach:
        raise Unsupported("start-up does not reach the receive loop")
    state_cell = None
    for i, o in enumerate(pro):
        g = z3.And(*o.st.pc) if o.st.pc else z3.BoolVal(True)
        names_ = [e[0] for e in o.st.events]
        tagp = f"start-up path {i} [" + ",".join(names_) + f"]->{o.kind}"
        hs = [n for n in names_ if n in HANDLERS or n == "on_start"]
        if o.kind == "reach":
            add(f"{tagp}: on_start runs exactly once before the receive loop, after the socket is bound, and before any other handler",
                hs == ["on_start"] and "bind" in names_ and names_.index("bind") < names_.index("on_start") and "recv" not in names_, g)
            ev = next(e for e in o.st.events if e[0] == "on_start") if "on_start" in names_ else None
            if ev is not None:
                add(f"{tagp}: on_start is given the actor's own id", ex.origin(ev[1][1]) == "env.id", g, **({} if ex.origin(ev[1][1]) == "env.id" else {"witness": ex.origin(ev[1][1])}))
        elif o.kind == "cut":
            add(f"{tagp}: no handler other than on_start runs before the receive loop", all(h == "on_start" for h in hs) and hs.count("on_start") <= 1, g)
    # ---- one round of the receive loop
    s0 = reach[0].st.clone()
    s0.pc, s0.events, s0.steps = [], [], 0
    keep_state = s0.locals.get(dbg_loc["state"])
    ex.apply_havoc(s0, body, _assigned(body, loops[main]) - {dbg_loc["state"]})
    state_cell = s0.locals.get(dbg_loc["state"])
    ex.loop_havoc = {h: _assigned(body, inner[h]) - {dbg_loc["state"]} for h in inner if h in loops[main]}
    outs = [o for o in ex.run(body, s0, main) if o.kind != "panic"]
    n_msg = n_int = 0
    for i, o in enumerate(outs):
        g = z3.And(*o.st.pc) if o.st.pc else z3.BoolVal(True)
        evs = o.st.events
        names_ = [e[0] for e in evs]
        tagp = f"round path {i} [" + ",".join(names_) + f"]->{o.kind}"
        hs = [e for e in evs if e[0] in HANDLERS]
        add(f"{tagp}: on_start is never called again", "on_start" not in names_, g)
        add(f"{tagp}: at most one handler per round", len(hs) <= 1, g)
        for h in hs:
            k = evs.index(h)
            before = names_[:k]
            a = h[1]
            add(f"{tagp}: {h[0]} is given the actor's own id", ex.origin(a[1]) == "env.id", g)
            sref = a[2]
            add(f"{tagp}: {h[0]} is handed the state cell left by the previous handler", sref[0] == "ref" and sref[1] == state_cell, g)
            if h[0] == "on_msg":
                n_msg += 1
                recv = next((e for e in evs[:k] if e[0] == "recv"), None)
                des = next((e for e in evs[:k] if e[0] == "fnptr"), None)
                idf = next((e for e in evs[:k] if e[0] == "id_from"), None)
                add(f"{tagp}: on_msg follows recv_from and deserialize on the same round, and no interrupt was taken", recv is not None and des is not None and "remove_interrupt" not in before, g)
                if recv is not None and des is not None and idf is not None:
                    o_msg, o_src, o_arg = ex.origin(a[4]), a[3], ex.origin(idf[1][0])
                    want_msg = des[2][1] + "/downcast:Ok/field:0"
                    add(f"{tagp}: the message handed to on_msg is the Ok payload of deserialize", o_msg == want_msg, g, **({} if o_msg == want_msg else {"witness": o_msg}))
                    add(f"{tagp}: the source Id handed to on_msg is Id::from of an address", a[3] == idf[2], g)
                    ok_src = o_arg.startswith(recv[2][1] + "/downcast:Ok/field:0/field:1") and "V4" in o_arg
                    add(f"{tagp}: that address is the IPv4 source address returned by recv_from", ok_src, g, **({} if ok_src else {"witness": o_arg}))
                    d_arg = ex.origin(des[1][0]) if des[1] else "?"
                else:
                    add(f"{tagp}: the source Id handed to on_msg is Id::from of the address returned by recv_from", False, g)
            else:
                n_int += 1
                add(f"{tagp}: {h[0]} runs only when the earliest deadline has passed (no receive on this round) and after the interrupt was removed from the pending set",
                    "recv" not in before and "set_read_timeout" not in before and "remove_interrupt" in before and "cds" in before, g)
        if o.kind == "reach" and hs:
            add(f"{tagp}: the round's commands are applied through on_command (loop reached)", True, g)
    if n_msg == 0 or n_int < 2:
        raise Unsupported(f"receive loop shape not recognised (on_msg paths {n_msg}, interrupt paths {n_int})")
    info = {"function": body.name, "blocks": len(body.blocks), "main_loop": f"bb{main}", "start_up_paths": len(pro), "round_paths": len(outs)}
    return res, info
