// Native demonstration (replay gate) for the check_block obligations of C01/C02/C03/C11:
// table-driven finite models (fixed shapes + deterministic pseudo-random graphs and forests) with
// ignored actions, a boundary, several initial states and four properties of all three kinds,
// explored by BFS and DFS with 1..3 threads and compared with an independent reference.
// It decides nothing: a violation found by the solver is only reported if this test fails.
use stateright::*;
use std::collections::{BTreeSet, VecDeque};
use std::sync::{Arc, Mutex};

#[derive(Clone, Debug)]
struct G {
    inits: Vec<usize>,
    edges: Vec<Vec<Option<usize>>>,
    inside: Vec<bool>,
    props: Vec<(u8, Vec<bool>)>, // kind 0 always, 1 eventually, 2 sometimes; condition table
}

fn c0(m: &G, s: &usize) -> bool { m.props[0].1[*s] }
fn c1(m: &G, s: &usize) -> bool { m.props[1].1[*s] }
fn c2(m: &G, s: &usize) -> bool { m.props[2].1[*s] }
fn c3(m: &G, s: &usize) -> bool { m.props[3].1[*s] }
const NAMES: [&str; 4] = ["p0", "p1", "p2", "p3"];

impl Model for G {
    type State = usize;
    type Action = usize;
    fn init_states(&self) -> Vec<usize> { self.inits.clone() }
    fn actions(&self, s: &usize, out: &mut Vec<usize>) { out.extend(0..self.edges[*s].len()); }
    fn next_state(&self, s: &usize, a: usize) -> Option<usize> { self.edges[*s][a] }
    fn within_boundary(&self, s: &usize) -> bool { self.inside[*s] }
    fn properties(&self) -> Vec<Property<Self>> {
        let fns: [fn(&G, &usize) -> bool; 4] = [c0, c1, c2, c3];
        self.props.iter().enumerate().map(|(i, (k, _))| match k {
            0 => Property::always(NAMES[i], fns[i]),
            1 => Property::eventually(NAMES[i], fns[i]),
            _ => Property::sometimes(NAMES[i], fns[i]),
        }).collect()
    }
}

impl G {
    fn succ(&self, s: usize) -> Vec<usize> {
        self.edges[s].iter().flatten().copied().filter(|t| self.inside[*t]).collect()
    }
    fn reachable(&self) -> BTreeSet<usize> {
        let mut seen: BTreeSet<usize> = self.inits.iter().copied().filter(|s| self.inside[*s]).collect();
        let mut q: VecDeque<usize> = seen.iter().copied().collect();
        while let Some(s) = q.pop_front() {
            for t in self.succ(s) { if seen.insert(t) { q.push_back(t); } }
        }
        seen
    }
    // some maximal in-boundary path from an initial state never satisfies `cond`
    fn has_unsatisfying_maximal_path(&self, cond: &[bool]) -> bool {
        // states reachable through non-satisfying states only
        let mut seen: BTreeSet<usize> = self.inits.iter().copied().filter(|s| self.inside[*s] && !cond[*s]).collect();
        let mut q: VecDeque<usize> = seen.iter().copied().collect();
        while let Some(s) = q.pop_front() {
            for t in self.succ(s) { if !cond[t] && seen.insert(t) { q.push_back(t); } }
        }
        // a dead end among them, or a cycle among them
        if seen.iter().any(|s| self.succ(*s).is_empty()) { return true; }
        // cycle detection: repeatedly remove states without successor inside `seen`
        let mut live = seen.clone();
        loop {
            let dead: Vec<usize> = live.iter().copied().filter(|s| !self.succ(*s).iter().any(|t| live.contains(t))).collect();
            if dead.is_empty() { break; }
            for d in dead { live.remove(&d); }
        }
        !live.is_empty()
    }
}

struct Lcg(u64);
impl Lcg {
    fn next(&mut self, n: usize) -> usize {
        self.0 = self.0.wrapping_mul(6364136223846793005).wrapping_add(1442695040888963407);
        ((self.0 >> 33) as usize) % n
    }
}

fn random_props(r: &mut Lcg, n: usize, keep_going: bool) -> Vec<(u8, Vec<bool>)> {
    let mut props = Vec::new();
    for i in 0..4 {
        let kind = if i == 3 && keep_going { 0 } else { r.next(3) as u8 };
        let dens = 1 + r.next(4);
        let tbl: Vec<bool> = (0..n).map(|_| {
            if i == 3 && keep_going { true } else if kind == 0 { r.next(5) < 1 + dens } else { r.next(6) < dens }
        }).collect();
        props.push((kind, tbl));
    }
    props
}

fn random_graph(r: &mut Lcg, keep_going: bool) -> G {
    let n = 2 + r.next(7);
    let mut edges = Vec::new();
    for _ in 0..n {
        let k = r.next(4);
        edges.push((0..k).map(|_| if r.next(5) == 0 { None } else { Some(r.next(n)) }).collect());
    }
    let inside: Vec<bool> = (0..n).map(|_| r.next(6) != 0).collect();
    let mut inits = vec![r.next(n)];
    if r.next(2) == 0 { let x = r.next(n); if !inits.contains(&x) { inits.push(x); } }
    G { inits, edges, inside, props: random_props(r, n, keep_going) }
}

fn random_forest(r: &mut Lcg, keep_going: bool) -> G {
    let n = 2 + r.next(8);
    let roots = 1 + r.next(2.min(n - 1));
    let mut edges: Vec<Vec<Option<usize>>> = vec![Vec::new(); n];
    for i in roots..n {
        let p = r.next(i);
        if r.next(6) == 0 { edges[p].push(None); }
        edges[p].push(Some(i));
    }
    let inside: Vec<bool> = (0..n).map(|_| r.next(8) != 0).collect();
    G { inits: (0..roots).collect(), edges, inside, props: random_props(r, n, keep_going) }
}

fn fail(msg: String) -> ! {
    println!("VIOLATION checker-oracle {}", msg);
    panic!("VIOLATION checker-oracle {}", msg);
}

fn rep(s: &usize) -> usize { *s & !1 } // an arbitrary "representative": path validity must hold for any such function

fn check_one(g: &G, dfs: bool, threads: usize, forest: bool, keep_going: bool) {
    check_sym(g, dfs, threads, forest, keep_going, false)
}

fn check_sym(g: &G, dfs: bool, threads: usize, forest: bool, keep_going: bool, sym: bool) {
    check_cfg(g, dfs, threads, forest, keep_going, sym, None)
}

// with a depth limit (like under the arbitrary "symmetry") only the validity of what is reported is checked, not exactness
fn check_cfg(g: &G, dfs: bool, threads: usize, forest: bool, keep_going: bool, sym: bool, depth: Option<usize>) {
    let tag = format!("[{} threads={} forest={} symmetry={} target_max_depth={:?} model={:?}]", if dfs { "dfs" } else { "bfs" }, threads, forest, sym, depth, g);
    let visited: Arc<Mutex<Vec<Vec<(usize, Option<usize>)>>>> = Arc::new(Mutex::new(Vec::new()));
    let v2 = visited.clone();
    let big = g.edges.len() > 100;
    let b = g.clone().checker().threads(threads).visitor(move |p: Path<usize, usize>| {
        // large models: keep only the last step of each path (the full paths would need O(n^2) memory)
        let v = p.into_vec();
        v2.lock().unwrap().push(if big { v[v.len() - 1..].to_vec() } else { v })
    });
    let b = match depth { Some(d) => b.target_max_depth(d), None => b };
    if depth.is_some() {
        return if dfs { analyse(g, b.spawn_dfs().join(), visited, tag, false, false, true) } else { analyse(g, b.spawn_bfs().join(), visited, tag, false, false, true) };
    }
    if sym { return analyse(g, b.symmetry_fn(rep).spawn_dfs().join(), visited, tag, false, false, true); }
    if dfs { analyse(g, b.spawn_dfs().join(), visited, tag, forest, keep_going, false) } else { analyse(g, b.spawn_bfs().join(), visited, tag, forest, keep_going, false) }
}

fn analyse<C: Checker<G>>(g: &G, c: C, visited: Arc<Mutex<Vec<Vec<(usize, Option<usize>)>>>>, tag: String, forest: bool, keep_going: bool, sym: bool) {
    if !sym && !c.is_done() { fail(format!("is_done false after join {}", tag)); }
    let reach = g.reachable();
    let valid_path = |p: &Vec<(usize, Option<usize>)>, what: &str| {
        if p.is_empty() { fail(format!("{}: empty path {}", what, tag)); }
        if !g.inits.contains(&p[0].0) || !g.inside[p[0].0] { fail(format!("{}: path {:?} does not start in an in-boundary initial state {}", what, p, tag)); }
        for w in 0..p.len() {
            if !g.inside[p[w].0] { fail(format!("{}: path {:?} leaves the boundary {}", what, p, tag)); }
            if w + 1 < p.len() {
                match p[w].1 {
                    Some(a) if a < g.edges[p[w].0].len() && g.edges[p[w].0][a] == Some(p[w + 1].0) => {}
                    _ => fail(format!("{}: path {:?} step {} is not a transition of the model {}", what, p, w, tag)),
                }
            }
        }
    };
    let disc = c.discoveries();
    for (i, (kind, tbl)) in g.props.iter().enumerate() {
        let d = disc.get(NAMES[i]).map(|p| p.clone().into_vec());
        if let Some(p) = &d {
            valid_path(p, &format!("C03 discovery of {}", NAMES[i]));
            let last = p[p.len() - 1].0;
            match kind {
                0 => if tbl[last] { fail(format!("C03 always-counterexample {:?} ends in a state that satisfies the property {}", p, tag)); },
                2 => if !tbl[last] { fail(format!("C03 sometimes-example {:?} ends in a state that does not satisfy the property {}", p, tag)); },
                _ => {
                    if p.iter().any(|(s, _)| tbl[*s]) { fail(format!("C03 eventually-counterexample {:?} for {} contains a state that satisfies the condition {}", p, NAMES[i], tag)); }
                    if !g.succ(last).is_empty() { fail(format!("C03 eventually-counterexample {:?} for {} can be extended inside the boundary {}", p, NAMES[i], tag)); }
                    if !g.has_unsatisfying_maximal_path(tbl) { fail(format!("C11 false alarm for {} {}", NAMES[i], tag)); }
                }
            }
        }
        // exactness (a property without a discovery means the exploration ran to completion); not under the arbitrary "symmetry"
        if !sym { match kind {
            0 => if d.is_none() && reach.iter().any(|s| !tbl[*s]) { fail(format!("C02 always-property {} violated in a reachable state but no counterexample {}", NAMES[i], tag)); },
            2 => if d.is_none() && reach.iter().any(|s| tbl[*s]) { fail(format!("C02 sometimes-property {} satisfied in a reachable state but no example {}", NAMES[i], tag)); },
            _ => if forest && d.is_none() && g.has_unsatisfying_maximal_path(tbl) { fail(format!("C11 missed eventually-counterexample for {} on a forest {}", NAMES[i], tag)); },
        } }
    }
    if !sym {
        // assert_properties succeeds exactly when no always/eventually property has a counterexample and every sometimes property an example
        let mut expected = true;
        for (i, (kind, tbl)) in g.props.iter().enumerate() {
            match kind {
                0 => if reach.iter().any(|s| !tbl[*s]) { expected = false; },
                2 => if !reach.iter().any(|s| tbl[*s]) { expected = false; },
                _ => if disc.contains_key(NAMES[i]) { expected = false; },
            }
        }
        let hook = std::panic::take_hook();
        std::panic::set_hook(Box::new(|_| {}));
        let got = std::panic::catch_unwind(std::panic::AssertUnwindSafe(|| c.assert_properties())).is_ok();
        std::panic::set_hook(hook);
        if got != expected { fail(format!("C02 assert_properties {} although it should {} {}", if got { "succeeded" } else { "panicked" }, if expected { "succeed" } else { "panic" }, tag)); }
    }
    let vis = visited.lock().unwrap().clone();
    if g.edges.len() <= 100 { for p in &vis { valid_path(p, "C01 visitor path"); } }
    if keep_going {
        // p3 = always(true) never gets a discovery: no early exit, the whole space is evaluated
        let mut seen: Vec<usize> = vis.iter().map(|p| p[p.len() - 1].0).collect();
        seen.sort();
        let want: Vec<usize> = reach.iter().copied().collect();
        if seen != want { fail(format!("C01 evaluated states {:?}, reachable in-boundary states {:?} {}", seen, want, tag)); }
        if c.unique_state_count() != want.len() { fail(format!("C01 unique_state_count {} != {} {}", c.unique_state_count(), want.len(), tag)); }
        if c.state_count() < want.len() { fail(format!("C01 state_count {} < {} {}", c.state_count(), want.len(), tag)); }
    }
}

fn fixed_models() -> Vec<G> {
    let t = true; let f = false;
    let mut v = Vec::new();
    // 0 -> 1 (dead end, never satisfies) ; 0 -> 2 (satisfies) -> 3 (dead end); both action orders
    for order in 0..2 {
        let e0 = if order == 0 { vec![Some(1), Some(2)] } else { vec![Some(2), Some(1)] };
        v.push(G { inits: vec![0], edges: vec![e0, vec![], vec![Some(3)], vec![]], inside: vec![t; 4],
                   props: vec![(1, vec![f, f, t, f]), (0, vec![t; 4]), (2, vec![f; 4]), (0, vec![t; 4])] });
    }
    // longer satisfied branch next to two dead ends, and an out-of-boundary successor
    for order in 0..2 {
        let mut e0 = vec![Some(1), Some(2), Some(6)];
        if order == 1 { e0.reverse(); }
        v.push(G { inits: vec![0], edges: vec![e0, vec![], vec![Some(3)], vec![Some(4)], vec![Some(5), None], vec![], vec![Some(7)], vec![]],
                   inside: vec![t, t, t, t, t, t, t, f],
                   props: vec![(1, vec![f, f, f, t, f, f, f, f]), (1, vec![f, f, t, f, f, f, t, f]), (0, vec![t, t, t, t, t, f, t, t]), (0, vec![t; 8])] });
    }
    v
}

// models larger than one block of work (1500 evaluations between two visits to the job market)
fn big_models() -> Vec<G> {
    let mut v = Vec::new();
    // corridor 0 -> 1 -> ... -> 3999
    let n = 4000;
    let edges: Vec<Vec<Option<usize>>> = (0..n).map(|i| if i + 1 < n { vec![Some(i + 1)] } else { vec![] }).collect();
    let at = |k: usize| (0..n).map(|i| i == k).collect::<Vec<bool>>();
    v.push(G { inits: vec![0], edges, inside: vec![true; n],
               props: vec![(0, (0..n).map(|i| i != 2500).collect()), (2, at(3999)), (1, at(3999)), (0, vec![true; n])] });
    // fan 0 -> 1..=1700, i -> 2000 + i % 50 -> 2100 (joins), two initial states, a boundary
    let n = 2101;
    let mut edges: Vec<Vec<Option<usize>>> = vec![Vec::new(); n];
    edges[0] = (1..=1700).map(Some).collect();
    for i in 1..=1700 { edges[i] = vec![None, Some(2000 + i % 50), Some(i)]; }
    for i in 2000..2050 { edges[i] = vec![Some(2100)]; }
    edges[1800] = vec![Some(1801)];
    let inside: Vec<bool> = (0..n).map(|i| i != 1801 && i != 777).collect();
    v.push(G { inits: vec![0, 1800], edges, inside,
               props: vec![(0, (0..n).map(|i| i != 2100).collect()), (2, (0..n).map(|i| i == 1600).collect()), (1, (0..n).map(|i| i == 2100).collect()), (0, vec![true; n])] });
    v
}

#[test]
fn verif_checker_oracle() {
    let mut models: Vec<(G, bool, bool)> = fixed_models().into_iter().map(|g| (g, true, true)).collect();
    let mut r = Lcg(0x5eed_1234);
    for i in 0..160 {
        let keep = i % 2 == 0;
        models.push((random_graph(&mut r, keep), false, keep));
        models.push((random_forest(&mut r, keep), true, keep));
    }
    for g in big_models() { models.push((g, false, true)); }
    for (g, forest, keep) in &models {
        for dfs in [false, true] {
            for threads in 1..=3 {
                check_one(g, dfs, threads, *forest, *keep);
            }
            if g.edges.len() <= 100 {
                for d in 1..=3 { check_cfg(g, dfs, 1, *forest, *keep, false, Some(d)); }
            }
            if dfs && g.edges.len() <= 100 {
                check_sym(g, true, 1, *forest, *keep, true);
                check_sym(g, true, 2, *forest, *keep, true);
            }
        }
    }
}

// ---- on-demand checker run to completion: validity of what it reports (its join() cannot be used: it never returns) ----
#[test]
fn verif_on_demand_oracle() {
    let mut models: Vec<G> = fixed_models();
    let mut r = Lcg(0x0dd_5eed);
    for i in 0..100 { models.push(random_graph(&mut r, i % 2 == 0)); models.push(random_forest(&mut r, i % 2 == 0)); }
    for g in &models {
        for threads in 1..=2 {
            let tag = format!("[on_demand threads={} model={:?}]", threads, g);
            let visited: Arc<Mutex<Vec<Vec<(usize, Option<usize>)>>>> = Arc::new(Mutex::new(Vec::new()));
            let c = g.clone().checker().threads(threads).spawn_on_demand();
            c.run_to_completion();
            // small models are explored within a few milliseconds; wait until the counters stand still
            let mut last = usize::MAX;
            for _ in 0..200 {
                std::thread::sleep(std::time::Duration::from_millis(5));
                let now = c.state_count() + c.unique_state_count();
                if now == last { break; }
                last = now;
            }
            analyse(g, c, visited, tag, false, false, true);
        }
    }
}

// ---- simulation: what a trace reports must be a genuine witness (validity only; a simulation is not exhaustive) ----
fn check_simulation(g: &G, seed: u64) {
    let tag = format!("[simulation seed={} model={:?}]", seed, g);
    let c = g.clone().checker().threads(1).target_state_count(400).spawn_simulation(seed, UniformChooser).join();
    for (i, (kind, tbl)) in g.props.iter().enumerate() {
        let p = match c.discoveries().get(NAMES[i]) { Some(p) => p.clone().into_vec(), None => continue };
        if p.is_empty() || !g.inits.contains(&p[0].0) { fail(format!("C03 simulation: path {:?} does not start in an initial state {}", p, tag)); }
        for w in 0..p.len() {
            if !g.inside[p[w].0] { fail(format!("C03 simulation: path {:?} leaves the boundary {}", p, tag)); }
            if w + 1 < p.len() {
                match p[w].1 {
                    Some(a) if a < g.edges[p[w].0].len() && g.edges[p[w].0][a] == Some(p[w + 1].0) => {}
                    _ => fail(format!("C03 simulation: path {:?} step {} is not a transition of the model {}", p, w, tag)),
                }
            }
        }
        let last = p[p.len() - 1].0;
        match kind {
            0 => if tbl[last] { fail(format!("C03 simulation: always-counterexample {:?} ends in a state that satisfies the property {}", p, tag)); },
            2 => if !tbl[last] { fail(format!("C03 simulation: sometimes-example {:?} ends in a state that does not satisfy the property {}", p, tag)); },
            _ => {
                if p.iter().any(|(s, _)| tbl[*s]) { fail(format!("C03 simulation: eventually-counterexample {:?} for {} contains a state that satisfies the condition {}", p, NAMES[i], tag)); }
                let succ = g.succ(last);
                let closes_cycle = p[..p.len() - 1].iter().any(|(s, _)| *s == last); // the repeated state is shown on the path
                if !succ.is_empty() && !closes_cycle {
                    fail(format!("C03 simulation: eventually-counterexample {:?} for {} neither ends in a dead end nor closes a cycle: it can be extended inside the boundary to {:?} {}", p, NAMES[i], succ, tag));
                }
            }
        }
    }
}

#[test]
fn verif_simulation_oracle() {
    let t = true; let f = false;
    // 0 -> 1 (outside the boundary) ; 0 -> 2 (inside, satisfies): every maximal in-boundary path satisfies the condition
    let mut models = vec![G { inits: vec![0], edges: vec![vec![Some(1), Some(2)], vec![], vec![]], inside: vec![t, f, t],
                              props: vec![(1, vec![f, f, t]), (0, vec![t; 3]), (2, vec![f; 3]), (0, vec![t; 3])] }];
    let mut r = Lcg(0x51b_5eed);
    for i in 0..120 { let g = random_graph(&mut r, i % 2 == 0); if g.inits.iter().all(|s| g.inside[*s]) { models.push(g); } }
    for g in &models { for seed in 0..6 { check_simulation(g, seed); } }
}
