"""Obligations for C05 / C12 discharged over the MIR-derived broker model."""
import re
import time
import z3
from symex import SOLVER_STATS

from jobmarket import BrokerModel, Market, CAP
from bmc import Protocol, SysState, NEED_POP, WAITING, HAVE_WORK, DONE, DROPPING, AFTER_WORK

PC_NAMES = {0: "NEED_POP", 1: "WAITING", 2: "HAVE_WORK", 3: "DONE", 4: "DROPPING", 5: "AFTER_WORK"}


def decode(m, states, whos, T):
    """z3 model -> list of steps (thread, move, details) and states"""
    trace = []

    def ev(x):
        v = m.eval(x, model_completion=True)
        if z3.is_int_value(v):
            return v.as_long()
        if z3.is_true(v):
            return True
        if z3.is_false(v):
            return False
        return str(v)

    snaps = []
    for s in states:
        snaps.append({
            "open": ev(s.mk.open), "oc": ev(s.mk.oc), "n": ev(s.mk.n), "slots": [ev(x) for x in s.mk.slots],
            "pc": [ev(x) for x in s.pc], "L": [ev(x) for x in s.L], "notified": [ev(x) for x in s.notif],
            "consumed": ev(s.consumed), "generated": ev(s.generated), "discarded": ev(s.discarded), "stop": ev(s.stop_req),
        })
    for k, who in enumerate(whos):
        w = ev(who)
        a, b = snaps[k], snaps[k + 1]
        p0, p1 = a["pc"][w], b["pc"][w]
        if p0 == NEED_POP or p0 == WAITING:
            mv = "pop" if p0 == NEED_POP else "pop_resume"
            res = "blocks" if p1 == WAITING else ("jobs" if p1 == HAVE_WORK else "empty")
            trace.append({"thread": w, "move": mv, "result": res, "len": b["L"][w]})
        elif p0 == HAVE_WORK:
            trace.append({"thread": w, "move": "work", "consume": b["consumed"] - a["consumed"], "generate": b["generated"] - a["generated"]})
        elif p0 == AFTER_WORK:
            if p1 == DROPPING:
                trace.append({"thread": w, "move": "finish"})
            elif (a["n"], a["open"]) != (b["n"], b["open"]) or a["L"][w] != b["L"][w]:
                trace.append({"thread": w, "move": "split", "local_before": a["L"][w], "local_after": b["L"][w]})
            else:
                trace.append({"thread": w, "move": "split_or_continue", "local_before": a["L"][w], "local_after": b["L"][w], "shares": a["L"][w] > 1 and T > 1})
        elif p0 == DROPPING:
            trace.append({"thread": w, "move": "drop"})
    return trace, snaps


def bmc(proto: Protocol, K, timeout_ms, eager=False):
    """eager=True restricts the schedules to those in which a notified waiter resumes before anybody
    else moves - the only wake-up order a turnstile over real threads can enforce; used to obtain a
    natively replayable counterexample once the unrestricted search has found a violation."""
    T = proto.T
    sol = z3.Solver()
    sol.set("timeout", timeout_ms)
    P0 = proto.P0
    states = [SysState(0, T)]
    sol.add(proto.init(states[0], P0))
    whos = []
    t0 = time.time()
    q = {"unsat": 0, "sat": 0, "unknown": 0}
    reach = {"waiting": False, "split": False, "all_done": False, "woken": False}
    for k in range(K + 1):
        s = states[k]
        for name, f in (("deadlock", proto.deadlock(s)), ("lost_or_duplicated", proto.lost_or_duplicated(s, P0)), ("batch_after_close", proto.handed_out_after_close(s))):
            sol.push()
            sol.add(f)
            r = sol.check()
            q[str(r)] += 1
            if r == z3.sat:
                m = sol.model()
                trace, snaps = decode(m, states[: k + 1], whos[:k], T)
                sol.pop()
                return {"verdict": "violation", "obligation": name, "step": k, "trace": trace, "states": snaps, "P0": m.eval(P0, model_completion=True).as_long(), "T": T, "queries": q, "time": time.time() - t0}
            sol.pop()
            if r == z3.unknown:
                return {"verdict": "unknown", "obligation": name, "step": k, "queries": q, "time": time.time() - t0}
        # vacuity witnesses: the interesting protocol situations are reachable within the bound
        for name, f in (("waiting", z3.Or(*[s.pc[w] == WAITING for w in range(T)])),
                        ("woken", z3.Or(*[z3.And(s.pc[w] == WAITING, s.notif[w]) for w in range(T)])),
                        ("split", s.mk.n >= 1 if k > 0 else z3.BoolVal(False)),
                        ("all_done", z3.And(*[s.pc[w] == DONE for w in range(T)]))):
            if not reach[name]:
                sol.push()
                sol.add(f)
                if name == "split":
                    sol.add(z3.Or(*[s.pc[w] == HAVE_WORK for w in range(T)]), s.generated > 0)
                r = sol.check()
                q[str(r)] += 1
                if r == z3.sat:
                    reach[name] = k
                sol.pop()
        if k < K:
            t = SysState(k + 1, T)
            f, who = proto.step(s, t, k)
            sol.add(f)
            if eager:
                some_woken = z3.Or(*[z3.And(s.pc[w] == WAITING, s.notif[w]) for w in range(T)])
                sol.add(z3.Implies(some_woken, z3.Or(*[z3.And(who == w, s.pc[w] == WAITING, s.notif[w]) for w in range(T)])))
            states.append(t)
            whos.append(who)
    return {"verdict": "holds", "K": K, "T": T, "queries": q, "time": time.time() - t0, "reachable": reach}


def inductive(proto: Protocol, timeout_ms):
    T = proto.T
    t0 = time.time()
    sol = z3.Solver()
    sol.set("timeout", timeout_ms)
    P0 = proto.P0
    s0 = SysState("i0", T)
    sol.add(proto.init(s0, P0), z3.Not(proto.inv(s0)))
    r0 = sol.check()
    sol = z3.Solver()
    sol.set("timeout", timeout_ms)
    s, t = SysState("a", T), SysState("b", T)
    f, who = proto.step(s, t, "i")
    sol.add(proto.inv(s), f, z3.Not(proto.inv(t)), P0 >= 0, P0 <= proto.lmax)
    r = sol.check()
    res = {"base": str(r0), "step": str(r), "time": time.time() - t0, "T": T}
    if r == z3.sat:
        m = sol.model()
        trace, snaps = decode(m, [s, t], [who], T)
        res["counterexample"] = {"trace": trace, "states": snaps}
    res["verdict"] = "holds" if (r0 == z3.unsat and r == z3.unsat) else ("violation" if z3.sat in (r0, r) else "unknown")
    return res


def _valid(bm, guard_and_claim_negated, extra=()):
    sol = z3.Solver()
    sol.set("timeout", 60000)
    sol.add(*bm.ex.base_constraints)
    sol.add(*extra)
    sol.add(guard_and_claim_negated)
    _t = time.time()
    r = sol.check()
    SOLVER_STATS["time"] += time.time() - _t
    SOLVER_STATS["queries"] += 1
    return r, (sol.model() if r == z3.sat else None)


def static_stop_propagation(bm: BrokerModel):
    """O3: on a closed market every broker call returns without handing out or keeping work, and
    no call ever re-opens the market."""
    g = Market.fresh("#s")
    L = z3.Int("L#s")
    results = []
    for meth, kw in (("pop", {}), ("split_and_push", {"local_len": L}), ("push", {"local_len": L}), ("drop", {})):
        sums = bm.summarize(meth, g, **kw)
        for i, sm in enumerate(sums):
            if sm.kind == "bound":
                continue
            claims = [z3.Not(sm.post.open)]  # never re-opened
            if meth == "pop":
                claims += [sm.ret_len == 0 if sm.ret_len is not None else z3.BoolVal(False), z3.BoolVal(sm.kind == "return")]
            if meth == "split_and_push":
                claims += [sm.local_post == 0, sm.post.n == g.n]
            if meth == "push":
                claims += [sm.post.n == g.n]
            r, m = _valid(bm, z3.And(z3.Not(g.open), sm.guard, z3.Not(z3.And(*claims))))
            results.append({"obligation": f"closed market: {meth} path {i} hands out nothing and does not re-open", "result": str(r), **({"witness": str(m)} if m is not None else {})})
    # a pop continuation (after a wake-up) on a closed market never returns work either... it may wait
    # again (another worker is still unwinding) but cannot hand out jobs
    pops = bm.summarize("pop", g)
    waits = [s for s in pops if s.kind == "wait"]
    if waits:
        res = bm.summarize_resume(waits[0], g)
        for i, sm in enumerate(res):
            if sm.kind != "return":
                continue
            r, m = _valid(bm, z3.And(z3.Not(g.open), g.n == 0, sm.guard, z3.Not(z3.And(sm.ret_len == 0, z3.Not(sm.post.open)))))
            results.append({"obligation": f"closed market: woken pop path {i} returns empty", "result": str(r), **({"witness": str(m)} if m is not None else {})})
    return results


def static_timeout(bm: BrokerModel):
    """O6 (C12): the timeout thread, from the MIR of JobBroker::new::{closure#0}."""
    g = Market.fresh("#t")
    close_at = z3.Int("close_at")
    out = []
    entries = [0]
    seen = set()
    all_sums = []
    while entries:
        e = entries.pop()
        if e in seen:
            continue
        seen.add(e)
        sums = bm.summarize("new::{closure#0}", g, closing_time=close_at, entry_bb=e)
        all_sums += [(e, s) for s in sums]
        for s in sums:
            if s.kind == "sleep" and not s.info.get("lock_held") and s.resume is not None:
                entries.append(s.resume)
    nows = lambda s: [v for v in z3.z3util.get_vars(s.guard) if str(v).startswith("now!")]
    for e, s in all_sums:
        nv = nows(s)
        now = nv[0] if nv else None
        tag = f"timeout thread bb{e} path ending in {s.kind}"
        # (iii) never blocks in sleep while holding the market mutex
        if s.kind == "sleep":
            held = bool(s.info.get("lock_held"))
            r, m = (z3.sat, None) if not held else _valid(bm, s.guard)
            out.append({"obligation": f"{tag}: not sleeping while holding the market mutex", "result": "unsat" if not held else ("sat" if r == z3.sat else str(r)),
                        **({"witness": {"market_open": True, "explanation": "closing time not reached, market open: the guard is alive across sleep(1s); every broker call of every worker blocks for the sleep period", "model": str(m)}} if held and r == z3.sat else {})})
            # an unexpired timeout changes nothing in the market
            r2, m2 = _valid(bm, z3.And(s.guard, z3.Not(z3.And(s.post.open == g.open, s.post.oc == g.oc, s.post.n == g.n, s.post.tc == g.tc))))
            out.append({"obligation": f"{tag}: an unexpired timeout leaves the market untouched", "result": str(r2), **({"witness": str(m2)} if m2 is not None else {})})
            if now is not None:
                r3, m3 = _valid(bm, z3.And(s.guard, close_at < now))
                out.append({"obligation": f"{tag}: never goes back to sleep once the closing time has passed", "result": str(r3), **({"witness": str(m3)} if m3 is not None else {})})
        else:
            # (i) after the closing time the market is closed by this iteration
            if now is not None:
                r1, m1 = _valid(bm, z3.And(s.guard, close_at < now, s.post.open))
                out.append({"obligation": f"{tag}: market closed once the closing time has passed", "result": str(r1), **({"witness": str(m1)} if m1 is not None else {})})
                r4, m4 = _valid(bm, z3.And(s.guard, z3.Not(close_at < now), g.open, z3.Not(s.post.open)))
                out.append({"obligation": f"{tag}: market not closed by the timeout thread before the closing time", "result": str(r4), **({"witness": str(m4)} if m4 is not None else {})})
            out.append({"obligation": f"{tag}: thread exit drops its broker clone (wakes waiters via Drop)", "result": "unsat" if s.kind == "return_drop_broker" else "sat"})
    # the timeout thread closes the market WITHOUT notifying; sleepers learn of it through the Drop of
    # its broker clone (and of every leaving worker's): Drop on an already closed market must still
    # wake every waiter, and a woken waiter on a closed market must return (checked in
    # static_stop_propagation)
    for i, sm in enumerate(bm.summarize("drop", g)):
        if sm.kind == "bound":
            continue
        wakes = any(e[0] == "notify_all" for e in sm.events)
        r, m = (z3.unsat, None) if wakes else _valid(bm, z3.And(z3.Not(g.open), sm.guard))
        out.append({"obligation": f"timeout closure reaches sleepers: Drop path {i} on a closed market wakes every waiter", "result": str(r), **({"witness": str(m)} if m is not None else {})})
    kinds = {s.kind for _, s in all_sums}
    if "sleep" not in kinds or not (kinds & {"return_drop_broker"}):
        out.append({"obligation": "timeout thread has both a sleeping and an exiting path (shape check)", "result": "sat"})
    return out, len(all_sums)


def worker_calls(mir_text):
    """The client automaton of the BMC mirrors the worker closures: check which JobBroker methods the
    checker code calls, from the MIR of the whole crate."""
    calls = {}
    for fn in re.split(r"\n(?=fn )", mir_text):
        if not fn.startswith("fn "):
            continue
        name = fn.split("(", 1)[0][3:]
        if name.startswith("job_market::"):
            continue
        for line in fn.splitlines():
            if "JobBroker" not in line or " = " not in line:
                continue
            m = re.search(r"= (?:<JobBroker<.*> as \w+>|JobBroker::<.*>)::(\w+)\((?:move|copy|const|\))", line)
            if m:
                calls.setdefault(m.group(1), set()).add(name.split("::<")[0])
    return {k: sorted(v) for k, v in calls.items()}


def _eager(proto, sol, s, who):
    T = proto.T
    some_woken = z3.Or(*[z3.And(s.pc[w] == WAITING, s.notif[w]) for w in range(T)])
    sol.add(z3.Implies(some_woken, z3.Or(*[z3.And(who == w, s.pc[w] == WAITING, s.notif[w]) for w in range(T)])))


def state_vars(s):
    return s.mk.vars() + s.pc + s.L + s.notif + [s.consumed, s.generated, s.discarded, s.stop_req, s.qclose_bad]


def deep_search(proto: Protocol, J, K, timeout_ms, tries=6):
    """Two-phase search for violations deeper than the plain BMC bound.
    Phase 1: from ANY state satisfying the inductive invariant, J eager steps to a violation.
    Phase 2: reach exactly that pre-state from the real initial state within K steps.
    Only a violation whose pre-state is reachable is reported (with the concatenated, replayable
    trace); unreachable candidates are discarded and blocked.  Returns (result, stats)."""
    T = proto.T
    P0 = proto.P0
    t0 = time.time()
    sol = z3.Solver()
    sol.set("timeout", timeout_ms)
    states = [SysState("d0", T)]
    whos = []
    sol.add(proto.inv(states[0]), P0 >= 0, P0 <= proto.lmax)
    # counters are relative: start them consistently with the conservation law
    s0 = states[0]
    sol.add(s0.consumed >= 0, s0.generated >= 0, s0.discarded == 0, s0.consumed <= 3 * proto.lmax, s0.generated <= 3 * proto.lmax,
            z3.Implies(z3.Not(s0.stop_req), s0.work_total() + s0.consumed == P0 + s0.generated))
    for j in range(J):
        t = SysState(f"d{j+1}", T)
        f, who = proto.step(states[j], t, f"d{j}")
        sol.add(f)
        _eager(proto, sol, states[j], who)
        states.append(t)
        whos.append(who)
    stats = {"candidates": 0, "unreachable": 0, "phase1_queries": 0, "phase2_queries": 0}
    for attempt in range(tries):
        found = None
        for j in range(0, J + 1):
            s = states[j]
            for name, f in (("deadlock", proto.deadlock(s)), ("lost_or_duplicated", proto.lost_or_duplicated(s, P0))):
                sol.push()
                sol.add(f)
                r = sol.check()
                stats["phase1_queries"] += 1
                if r == z3.sat:
                    found = (name, j, sol.model())
                sol.pop()
                if found:
                    break
            if found:
                break
        if not found:
            return None, {**stats, "time": time.time() - t0}
        name, j, m = found
        stats["candidates"] += 1
        pre = [(v, m.eval(v, model_completion=True)) for v in state_vars(states[0])]
        p0v = m.eval(P0, model_completion=True)
        # phase 2: is that pre-state reachable?
        sol2 = z3.Solver()
        sol2.set("timeout", timeout_ms)
        st2 = [SysState("r0", T)]
        sol2.add(proto.init(st2[0], P0), P0 == p0v)
        who2 = []
        reach = None
        for k in range(K + 1):
            sol2.push()
            sol2.add(*[a == val for a, (_, val) in zip(state_vars(st2[k]), pre)])
            r = sol2.check()
            stats["phase2_queries"] += 1
            if r == z3.sat:
                reach = (k, sol2.model())
                sol2.pop()
                break
            sol2.pop()
            if k < K:
                t = SysState(f"r{k+1}", T)
                f, who = proto.step(st2[k], t, f"r{k}")
                sol2.add(f)
                _eager(proto, sol2, st2[k], who)
                st2.append(t)
                who2.append(who)
        if reach:
            k, m2 = reach
            tr1, sn1 = decode(m2, st2[: k + 1], who2[:k], T)
            tr2, sn2 = decode(m, states[: j + 1], whos[:j], T)
            return {"verdict": "violation", "obligation": name, "step": k + j, "trace": tr1 + tr2, "states": sn1 + sn2[1:], "P0": p0v.as_long(), "T": T,
                    "found_by": f"two-phase search: invariant state + {j} steps, pre-state reached from the initial state in {k} steps"}, {**stats, "time": time.time() - t0}
        stats["unreachable"] += 1
        sol.add(z3.Or(*[v != val for v, val in pre]))  # block this candidate
    return None, {**stats, "time": time.time() - t0, "gave_up": True}


def single_thread_broker(bm: BrokerModel):
    """C13: with one worker thread the broker never reorders or splits the worker's queue:
    split_and_push leaves queue and market untouched and wakes nobody; pop on a market holding one
    batch hands out that whole batch."""
    g = Market.fresh("#q")
    L = z3.Int("L#q")
    out = []
    for i, sm in enumerate(bm.summarize("split_and_push", g, local_len=L)):
        if sm.kind == "bound":
            continue
        untouched = z3.And(sm.local_post == L, sm.post.n == g.n, sm.post.open == g.open, sm.post.oc == g.oc, z3.BoolVal(not any(e[0].startswith("notify") for e in sm.events)), z3.BoolVal(sm.kind == "return"))
        r, m = _valid(bm, z3.And(sm.guard, g.open, g.tc == 1, g.oc == 1, z3.Not(untouched)))
        out.append({"obligation": f"single worker: split_and_push path {i} leaves the worker's queue and the market untouched", "result": str(r), **({"witness": str(m)} if m is not None else {})})
    for i, sm in enumerate(bm.summarize("pop", g)):
        if sm.kind == "bound":
            continue
        if sm.kind != "return":
            r, m = _valid(bm, z3.And(sm.guard, g.open, g.tc == 1, g.oc == 1, g.n == 1))
            out.append({"obligation": f"single worker: pop path {i} ({sm.kind}) is not taken when one batch is queued", "result": str(r), **({"witness": str(m)} if m is not None else {})})
            continue
        whole = z3.And(sm.ret_len == g.slots[0], sm.post.n == 0) if sm.ret_len is not None else z3.BoolVal(False)
        r, m = _valid(bm, z3.And(sm.guard, g.open, g.tc == 1, g.oc == 1, g.n == 1, z3.Not(whole)))
        out.append({"obligation": f"single worker: pop path {i} hands out the one queued batch whole", "result": str(r), **({"witness": str(m)} if m is not None else {})})
    return out


def bfs_order_induction():
    """C13 composition step (z3, integers): a queue whose depths are sorted (front deepest) and span
    at most two consecutive values keeps that shape when the back job (depth b) is taken and any
    number of jobs of depth b + 1 are put at the front; the next job taken is not shallower."""
    f, b, b2, k, f2 = z3.Ints("front back back_after pushed front_after")
    inv = z3.And(b >= 1, f >= b, f <= b + 1)
    rest_nonempty = z3.Bool("rest_nonempty")
    # after pop_back: the remaining queue is empty, or its back depth b2 lies within [b, f]
    step = z3.And(k >= 0, z3.Implies(rest_nonempty, z3.And(b2 >= b, b2 <= f)),
                  # pushing depth b+1 at the front keeps the order only if b+1 >= the old front
                  z3.If(k > 0, f2 == b + 1, f2 == f),
                  z3.Implies(z3.And(z3.Not(rest_nonempty), k > 0), b2 == b + 1))
    sorted_after = z3.Implies(k > 0, b + 1 >= f)
    inv_after = z3.Implies(z3.Or(rest_nonempty, k > 0), z3.And(b2 >= 1, f2 >= b2, f2 <= b2 + 1, b2 >= b))
    s = z3.Solver()
    s.add(inv, step, z3.Not(z3.And(sorted_after, inv_after)))
    r = s.check()
    return {"obligation": "BFS order, composition: FIFO discipline + successor depth d+1 + initial depth 1 keep the queue sorted over two consecutive depths, so jobs are taken in non-decreasing depth (inductive step over the abstract queue)", "result": str(r), **({"witness": str(s.model())} if r == z3.sat else {})}
