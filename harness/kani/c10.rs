//! C10 — symmetry reduction: plans built by sorting are THE stable sorting permutation, their two
//! applications (reindex, rewrite) are consistent, structural `Rewrite` impls apply the plan
//! pointwise, and `ActorModelState::representative()` is the image of the state under that one
//! permutation applied to actor states, embedded ids, crash flags and history.
//! Instantiations: `RewritePlan<Id, DenseNatMap<Id, Id>>` from `[u8; N]` (N <= 4, values < 4 so ties
//! are common); `Vec<Id>`, `(Id, Id)`, `Option<Id>`, `VecDeque<Id>`, `Arc<Id>`, `Envelope<Id>`,
//! `DenseNatMap<Id, Id>`; `ActorModelState<TA, Vec<Id>>` with <= 3 actors.
use crate::actor::{Actor, ActorModelState, Envelope, Id, Network, Out, RandomChoices, Timers};
use crate::util::DenseNatMap;
use crate::{Representative, Rewrite, RewritePlan};
use super::coll::VecDeque;
use std::sync::Arc;

fn vec_n<const N: usize, T: Copy>(c: [T; 4]) -> Vec<T> {
    match N {
        0 => vec![],
        1 => vec![c[0]],
        2 => vec![c[0], c[1]],
        3 => vec![c[0], c[1], c[2]],
        _ => vec![c[0], c[1], c[2], c[3]],
    }
}

/// The stable sorting permutation, written as a formula: position of element `i` after a stable
/// ascending sort = number of strictly smaller elements + number of equal elements before it.
fn stable_rank<const N: usize, T: Copy + Ord>(v: &[T; 4], i: usize) -> usize {
    let mut r = 0;
    let mut k = 0;
    while k < N {
        if v[k] < v[i] || (v[k] == v[i] && k < i) {
            r += 1;
        }
        k += 1;
    }
    r
}

/// Plan laws for every value vector of length N (with ties).
fn plan_laws<const N: usize>() {
    let v: [u8; 4] = kani::any();
    kani::assume(v[0] < 4 && v[1] < 4 && v[2] < 4 && v[3] < 4);
    let plan: RewritePlan<Id, _> = RewritePlan::from_values_to_sort(&vec_n::<N, u8>(v));
    let sorted: Vec<u8> = plan.reindex(&vec_n::<N, u8>(v));
    assert!(sorted.len() == N, "C10 reindex keeps the length");
    // an independent vector of ids indexed like v, and one of plain values
    let xi: [usize; 4] = kani::any();
    kani::assume(xi[0] < N && xi[1] < N && xi[2] < N && xi[3] < N);
    let x: [Id; 4] = [Id::from(xi[0]), Id::from(xi[1]), Id::from(xi[2]), Id::from(xi[3])];
    let rx: Vec<Id> = plan.reindex(&vec_n::<N, Id>(x));
    assert!(rx.len() == N, "C10 reindex keeps the length (ids)");
    let mut i = 0;
    while i < N {
        let pi = usize::from(plan.rewrite(&Id::from(i)));
        assert!(pi < N, "C10 plan maps 0..n into 0..n");
        assert!(pi == stable_rank::<N, u8>(&v, i), "C10 plan is the stable sorting permutation");
        assert!(sorted[pi] == v[i], "C10 reindex moves element i to plan(i)");
        assert!(rx[pi] == plan.rewrite(&x[i]), "C10 reindex and rewrite are consistent: moved AND rewritten by the same plan");
        let mut j = 0;
        while j < i {
            let pj = usize::from(plan.rewrite(&Id::from(j)));
            assert!(pj != pi, "C10 plan is injective (a permutation)");
            j += 1;
        }
        if i + 1 < N {
            assert!(sorted[i] <= sorted[i + 1], "C10 reindex of the sorted-by vector is sorted");
        }
        i += 1;
    }
    kani::cover!(N < 3 || (v[0] == v[2] && v[1] < v[0]), "tie with a smaller element in between");
    kani::cover!(usize::from(plan.rewrite(&Id::from(0usize))) == N - 1, "first element moves last");
}

#[kani::proof]
#[kani::unwind(7)]
fn c10_plan_laws_n1_n2() {
    plan_laws::<1>();
    plan_laws::<2>();
}
#[kani::proof]
#[kani::unwind(7)]
fn c10_plan_laws_n3() {
    plan_laws::<3>();
}
#[kani::proof]
#[kani::unwind(8)]
fn c10_t_plan_laws_n4() {
    plan_laws::<4>();
}

/// `From<&DenseNatMap>` / `From<DenseNatMap>` build the same plan as sorting the values.
#[kani::proof]
#[kani::unwind(7)]
fn c10_plan_from_densenatmap() {
    let v: [u8; 4] = kani::any();
    kani::assume(v[0] < 4 && v[1] < 4 && v[2] < 4);
    let m: DenseNatMap<Id, u8> = DenseNatMap::from(vec_n::<3, u8>(v));
    let p1: RewritePlan<Id, _> = RewritePlan::from(&m);
    let p2: RewritePlan<Id, _> = RewritePlan::from(m);
    let mut i = 0;
    while i < 3 {
        let want = stable_rank::<3, u8>(&v, i);
        assert!(usize::from(p1.rewrite(&Id::from(i))) == want, "C10 plan from &DenseNatMap is the stable sorting permutation");
        assert!(usize::from(p2.rewrite(&Id::from(i))) == want, "C10 plan from DenseNatMap is the stable sorting permutation");
        i += 1;
    }
    kani::cover!(v[0] > v[1] && v[1] > v[2], "reversal");
}

/// Structural `Rewrite` impls apply the plan pointwise and keep shape and order.
#[kani::proof]
#[kani::unwind(7)]
fn c10_rewrite_structural() {
    let v: [u8; 4] = kani::any();
    kani::assume(v[0] < 3 && v[1] < 3 && v[2] < 3);
    let plan: RewritePlan<Id, _> = RewritePlan::from_values_to_sort(&vec_n::<3, u8>(v));
    let a = Id::from(kani::any::<usize>());
    let b = Id::from(kani::any::<usize>());
    let c = Id::from(kani::any::<usize>());
    kani::assume(usize::from(a) < 3 && usize::from(b) < 3 && usize::from(c) < 3);
    let (pa, pb, pc) = (plan.rewrite(&a), plan.rewrite(&b), plan.rewrite(&c));
    assert!(usize::from(pa) == stable_rank::<3, u8>(&v, usize::from(a)), "C10 Id rewritten through the plan");
    let rv = vec![a, b, c].rewrite(&plan);
    assert!(rv.len() == 3 && rv[0] == pa && rv[1] == pb && rv[2] == pc, "C10 Vec<Id> rewritten pointwise in order");
    assert!((a, b).rewrite(&plan) == (pa, pb), "C10 pair rewritten pointwise");
    assert!(Some(c).rewrite(&plan) == Some(pc), "C10 Option rewritten");
    assert!(Option::<Id>::None.rewrite(&plan).is_none(), "C10 None stays None");
    let mut dq = VecDeque::with_capacity(4);
    dq.push_back(b);
    dq.push_back(a);
    let rdq = dq.rewrite(&plan);
    assert!(rdq.len() == 2 && rdq[0] == pb && rdq[1] == pa, "C10 VecDeque rewritten pointwise in order");
    assert!(*Arc::new(c).rewrite(&plan) == pc, "C10 Arc rewritten");
    let env = Envelope { src: a, dst: b, msg: c }.rewrite(&plan);
    assert!(env.src == pa && env.dst == pb && env.msg == pc, "C10 Envelope endpoints and payload rewritten");
    assert!(7u8.rewrite(&plan) == 7 && true.rewrite(&plan), "C10 scalars untouched");
    let dm: DenseNatMap<Id, Id> = DenseNatMap::from(vec![a, b, c]);
    let rdm = dm.rewrite(&plan);
    let mut k = 0;
    while k < 3 {
        let pk = plan.rewrite(&Id::from(k));
        let want = match k {
            0 => pa,
            1 => pb,
            _ => pc,
        };
        assert!(rdm.get(pk) == Some(&want), "C10 DenseNatMap<Id,Id>: key and value rewritten by the same plan");
        k += 1;
    }
    kani::cover!(pa != a, "id actually changes");
}

// ---- representative of an actor-system state ---------------------------------------------------

#[derive(Clone, Copy, Debug, PartialEq, Eq, Hash, PartialOrd, Ord)]
pub struct St {
    v: u8,
    peer: Id,
}
impl Rewrite<Id> for St {
    fn rewrite<S>(&self, plan: &RewritePlan<Id, S>) -> Self {
        St { v: self.v, peer: self.peer.rewrite(plan) }
    }
}
pub struct TA;
impl Actor for TA {
    type Msg = Id;
    type State = St;
    type Timer = u8;
    type Random = u8;
    fn on_start(&self, id: Id, _o: &mut Out<Self>) -> St {
        St { v: 0, peer: id }
    }
}

fn timers_n<const N: usize>() -> Vec<Timers<u8>> {
    match N {
        1 => vec![Timers::new()],
        2 => vec![Timers::new(), Timers::new()],
        _ => vec![Timers::new(), Timers::new(), Timers::new()],
    }
}
fn choices_n<const N: usize>() -> Vec<RandomChoices<u8>> {
    match N {
        1 => vec![RandomChoices::default()],
        2 => vec![RandomChoices::default(), RandomChoices::default()],
        _ => vec![RandomChoices::default(), RandomChoices::default(), RandomChoices::default()],
    }
}

/// `representative()` of a state with N actors (symbolic actor states holding an id, symbolic crash
/// flags, history = two ids; empty timers/choices/ordered network): the result is the image of
/// the state under ONE permutation - the stable sort of the actor states - applied to actor
/// states (moved and their embedded ids rewritten), crash flags (moved) and history (rewritten).
fn representative_n<const N: usize>() {
    let vs: [u8; 4] = [kani::any(), kani::any(), kani::any(), kani::any()];
    kani::assume(vs[0] < 3 && vs[1] < 3 && vs[2] < 3);
    let ps: [usize; 4] = [kani::any(), kani::any(), kani::any(), kani::any()];
    kani::assume(ps[0] < N && ps[1] < N && ps[2] < N && ps[3] < N);
    let st: [St; 4] = [
        St { v: vs[0], peer: Id::from(ps[0]) },
        St { v: vs[1], peer: Id::from(ps[1]) },
        St { v: vs[2], peer: Id::from(ps[2]) },
        St { v: vs[3], peer: Id::from(ps[3]) },
    ];
    let cr: [bool; 4] = [kani::any(), kani::any(), kani::any(), kani::any()];
    let h: [usize; 2] = [kani::any(), kani::any()];
    kani::assume(h[0] < N && h[1] < N);
    let actor_states: Vec<Arc<St>> = match N {
        1 => vec![Arc::new(st[0])],
        2 => vec![Arc::new(st[0]), Arc::new(st[1])],
        _ => vec![Arc::new(st[0]), Arc::new(st[1]), Arc::new(st[2])],
    };
    let s: ActorModelState<TA, Vec<Id>> = ActorModelState {
        actor_states,
        network: Network::new_ordered([]),
        timers_set: timers_n::<N>(),
        random_choices: choices_n::<N>(),
        crashed: vec_n::<N, bool>(cr),
        history: vec![Id::from(h[0]), Id::from(h[1])],
    };
    let r = s.representative();
    assert!(r.actor_states.len() == N && r.crashed.len() == N && r.timers_set.len() == N && r.random_choices.len() == N, "C10 representative keeps every per-actor vector's length");
    assert!(r.history.len() == 2, "C10 representative keeps the history length");
    let mut i = 0;
    while i < N {
        let pi = stable_rank::<N, St>(&st, i);
        let want = St { v: st[i].v, peer: Id::from(stable_rank::<N, St>(&st, ps[i])) };
        assert!(*r.actor_states[pi] == want, "C10 representative: actor state i moved to pi(i) with its embedded id rewritten by pi");
        assert!(r.crashed[pi] == cr[i], "C10 representative: crash flag i moved to pi(i)");
        i += 1;
    }
    assert!(r.history[0] == Id::from(stable_rank::<N, St>(&st, h[0])), "C10 representative: history ids rewritten by pi");
    assert!(r.history[1] == Id::from(stable_rank::<N, St>(&st, h[1])), "C10 representative: history ids rewritten by pi (second entry)");
    assert!(r.network.len() == 0, "C10 representative: empty network stays empty");
    kani::cover!(N < 2 || (stable_rank::<N, St>(&st, 0) != 0 && cr[0] && !cr[1]), "non-identity permutation with distinct crash flags");
    kani::cover!(N < 2 || (st[0].v == st[1].v && st[0].peer != st[1].peer), "tie on v broken by the embedded id");
}

#[kani::proof]
#[kani::unwind(4)]
fn c10_representative_n1() {
    representative_n::<1>();
}
#[kani::proof]
#[kani::unwind(4)]
fn c10_representative_n2() {
    representative_n::<2>();
}

/// Vacuity twin.
#[kani::proof]
#[kani::unwind(7)]
fn c10_twin_must_fail() {
    let v: [u8; 4] = kani::any();
    kani::assume(v[0] < 4 && v[1] < 4);
    let plan: RewritePlan<Id, _> = RewritePlan::from_values_to_sort(&vec_n::<2, u8>(v));
    assert!(usize::from(plan.rewrite(&Id::from(0usize))) == 0, "TWIN every plan is the identity (false)");
}

// ---- rewriting of non-empty networks ---------------------------------------------------------------

use super::coll::BTreeMap;
use crate::util::{HashableHashMap, HashableHashSet};

fn plan2(v: [u8; 4]) -> RewritePlan<Id, DenseNatMap<Id, Id>> {
    RewritePlan::from_values_to_sort(&vec_n::<2, u8>(v))
}

/// A non-duplicating network keeps every copy when rewritten: the envelope `src -> dst` held
/// `c` times becomes `pi(src) -> pi(dst)` held `c` times (payload ids rewritten too).
#[kani::proof]
#[kani::unwind(5)]
fn c10_network_rewrite_nonduplicating() {
    let v: [u8; 4] = [kani::any(), kani::any(), 0, 0];
    kani::assume(v[0] < 2 && v[1] < 2);
    let plan = plan2(v);
    let (s, d, p): (usize, usize, usize) = (kani::any(), kani::any(), kani::any());
    kani::assume(s < 2 && d < 2 && p < 2);
    let c: usize = kani::any();
    kani::assume(c >= 1 && c <= 3);
    let mut m: HashableHashMap<Envelope<Id>, usize> = HashableHashMap::new();
    m.insert(Envelope { src: Id::from(s), dst: Id::from(d), msg: Id::from(p) }, c);
    let net = Network::UnorderedNonDuplicating(m);
    let r = net.rewrite(&plan);
    let pi = |x: usize| Id::from(stable_rank::<2, u8>(&v, x));
    assert!(r.len() == c, "C10 rewriting a non-duplicating network keeps every copy of every message");
    let mut ok = false;
    for e in r.iter_deliverable() {
        ok = e.src == pi(s) && e.dst == pi(d) && *e.msg == pi(p);
    }
    assert!(ok, "C10 message endpoints and embedded ids are rewritten by the same plan (non-duplicating network)");
    kani::cover!(c == 2 && v[0] > v[1], "two copies under a swapping plan");
}

/// A duplicating network: the set of envelopes and the last delivered message are rewritten.
#[kani::proof]
#[kani::unwind(5)]
fn c10_network_rewrite_duplicating() {
    let v: [u8; 4] = [kani::any(), kani::any(), 0, 0];
    kani::assume(v[0] < 2 && v[1] < 2);
    let plan = plan2(v);
    let (s, d, p): (usize, usize, usize) = (kani::any(), kani::any(), kani::any());
    kani::assume(s < 2 && d < 2 && p < 2);
    let e = Envelope { src: Id::from(s), dst: Id::from(d), msg: Id::from(p) };
    let mut set: HashableHashSet<Envelope<Id>> = HashableHashSet::new();
    set.insert(e);
    let net = Network::UnorderedDuplicating(set, Some(e));
    let r = net.rewrite(&plan);
    let pi = |x: usize| Id::from(stable_rank::<2, u8>(&v, x));
    let want = Envelope { src: pi(s), dst: pi(d), msg: pi(p) };
    assert!(r.len() == 1, "C10 rewriting a duplicating network keeps its envelopes");
    match &r {
        Network::UnorderedDuplicating(rs, last) => {
            assert!(rs.contains(&want), "C10 envelope rewritten by the plan (duplicating network)");
            assert!(*last == Some(want), "C10 the last delivered message is rewritten by the same plan");
        }
        _ => assert!(false, "C10 rewriting keeps the network kind"),
    }
    kani::cover!(v[0] > v[1], "swapping plan");
}

/// An ordered network: every flow moves to the rewritten endpoints and keeps its queue order.
#[kani::proof]
#[kani::unwind(5)]
fn c10_network_rewrite_ordered() {
    let v: [u8; 4] = [kani::any(), kani::any(), 0, 0];
    kani::assume(v[0] < 2 && v[1] < 2);
    let plan = plan2(v);
    let (s, d, p, q): (usize, usize, usize, usize) = (kani::any(), kani::any(), kani::any(), kani::any());
    kani::assume(s < 2 && d < 2 && p < 2 && q < 2);
    let mut flow = VecDeque::with_capacity(2);
    flow.push_back(Id::from(p));
    flow.push_back(Id::from(q));
    let mut map: BTreeMap<(Id, Id), VecDeque<Id>> = BTreeMap::new();
    map.insert((Id::from(s), Id::from(d)), flow);
    let net = Network::Ordered(map);
    let r = net.rewrite(&plan);
    let pi = |x: usize| Id::from(stable_rank::<2, u8>(&v, x));
    assert!(r.len() == 2, "C10 rewriting an ordered network keeps every queued message");
    match &r {
        Network::Ordered(rm) => {
            let f = rm.get(&(pi(s), pi(d))).expect("C10 the flow moves to the rewritten endpoints");
            assert!(f.len() == 2 && f[0] == pi(p) && f[1] == pi(q), "C10 a rewritten flow keeps its queue order, payload ids rewritten");
        }
        _ => assert!(false, "C10 rewriting keeps the network kind"),
    }
    kani::cover!(v[0] > v[1] && p != q, "swapping plan, distinct payloads");
}
