//! C07 — message transport obeys the selected network semantics.
//!
//! The real `Network` code (send / on_deliver / on_drop / len / iter_all / iter_deliverable, all
//! three kinds) is run next to a reference semantics written in the harness over a tiny envelope
//! alphabet (src = 0, dst and msg in {0,1}: 4 envelopes, 2 flows).  A script of up to 3 sends with symbolic
//! envelopes is followed by up to 2 symbolic deliver/drop steps of deliverable envelopes; after
//! every step everything observable is compared with the reference.
//! The std containers inside `Network` are the Vec-backed models (see MANIFEST assumptions).
use crate::actor::{Envelope, Id, Network};

const NE: usize = 4;

fn env_of(i: usize) -> Envelope<u8> {
    Envelope { src: Id::from(0usize), dst: Id::from((i >> 1) & 1), msg: (i & 1) as u8 }
}
fn idx_of(e: &Envelope<&u8>) -> usize {
    assert!(usize::from(e.src) == 0, "C07 envelopes keep their source");
    (usize::from(e.dst) << 1) | (*e.msg as usize)
}
fn any_env() -> usize {
    let i: usize = kani::any();
    kani::assume(i < NE);
    i
}

/// Reference semantics.  `cnt[e]` = copies in flight (set kinds: 0/1); for the ordered kind
/// `q[f]` is the FIFO of flow f = (src,dst) as a list of message bits, `ql[f]` its length.
#[derive(Clone, Copy)]
struct Ref {
    kind: u8, // 0 unordered duplicating, 1 unordered non-duplicating, 2 ordered
    cnt: [u8; NE],
    q: [[u8; 4]; 2],
    ql: [usize; 2],
}
impl Ref {
    fn new(kind: u8) -> Self {
        Ref { kind, cnt: [0; NE], q: [[0; 4]; 2], ql: [0; 2] }
    }
    fn send(&mut self, e: usize) {
        match self.kind {
            0 => self.cnt[e] = 1,
            1 => self.cnt[e] += 1,
            _ => {
                let f = e >> 1;
                self.q[f][self.ql[f]] = (e & 1) as u8;
                self.ql[f] += 1;
                self.cnt[e] += 1;
            }
        }
    }
    fn deliverable(&self, e: usize) -> bool {
        match self.kind {
            0 | 1 => self.cnt[e] > 0,
            _ => {
                let f = e >> 1;
                self.ql[f] > 0 && self.q[f][0] == (e & 1) as u8
            }
        }
    }
    /// consume one copy (delivery on non-duplicating kinds, drop on every kind)
    fn consume(&mut self, e: usize) {
        match self.kind {
            0 => self.cnt[e] = 0,
            1 => self.cnt[e] -= 1,
            _ => {
                let f = e >> 1;
                // head of the flow
                let mut i = 1;
                while i < 4 {
                    self.q[f][i - 1] = self.q[f][i];
                    i += 1;
                }
                self.ql[f] -= 1;
                self.cnt[e] -= 1;
            }
        }
    }
    fn deliver(&mut self, e: usize) {
        if self.kind != 0 {
            self.consume(e)
        } // a duplicating network may redeliver: contents unchanged
    }
    fn len(&self) -> usize {
        let mut n = 0;
        let mut i = 0;
        while i < NE {
            n += self.cnt[i] as usize;
            i += 1;
        }
        n
    }
}

fn new_net(kind: u8) -> Network<u8> {
    match kind {
        0 => Network::new_unordered_duplicating([]),
        1 => Network::new_unordered_nonduplicating([]),
        _ => Network::new_ordered([]),
    }
}

/// Compares every observation of the real network with the reference.
fn observe(net: &Network<u8>, r: &Ref) {
    let n = r.len();
    assert!(net.len() == n, "C07 len equals the number of copies in flight");
    // iter_all: exactly len() envelopes, each envelope as often as it is in flight
    let mut seen = [0u8; NE];
    let mut it = net.iter_all();
    let mut k = 0;
    let mut short = false;
    while k < n {
        match it.next() {
            Some(e) => {
                let i = idx_of(&e);
                seen[i] += 1;
                if r.kind == 2 {
                    // within a flow, iter_all follows queue order: this is the (seen-th) message of its flow
                    let f = i >> 1;
                    let pos = (seen[f * 2] + seen[f * 2 + 1] - 1) as usize;
                    assert!(pos < r.ql[f] && r.q[f][pos] == (i & 1) as u8, "C07 iter_all walks each ordered flow in send order");
                }
            }
            None => short = true,
        }
        k += 1;
    }
    assert!(!short, "C07 iter_all yields at least len() envelopes");
    assert!(it.next().is_none(), "C07 iter_all yields no more than len() envelopes");
    let mut i = 0;
    while i < NE {
        assert!(seen[i] == r.cnt[i], "C07 iter_all yields each envelope exactly as often as it is in flight");
        i += 1;
    }
    // iter_deliverable: each deliverable envelope exactly once (ordered: the head of each flow)
    let mut dseen = [0u8; NE];
    let mut dit = net.iter_deliverable();
    let mut k = 0;
    while k < NE {
        if let Some(e) = dit.next() {
            dseen[idx_of(&e)] += 1;
        }
        k += 1;
    }
    assert!(dit.next().is_none(), "C07 iter_deliverable terminates");
    let mut i = 0;
    while i < NE {
        assert!(dseen[i] == if r.deliverable(i) { 1 } else { 0 }, "C07 iter_deliverable yields exactly the deliverable envelopes, once each");
        i += 1;
    }
}

/// K sends of symbolic envelopes, then C consume steps (deliver or drop, solver's choice) of
/// symbolic deliverable envelopes; everything observable is compared at the end (intermediate
/// states are the final states of the smaller scenarios).
fn scenario<const KIND: u8, const K: usize, const C: usize>() {
    let mut net = new_net(KIND);
    let mut r = Ref::new(KIND);
    let mut j = 0;
    while j < K {
        let e = any_env();
        net.send(env_of(e));
        r.send(e);
        j += 1;
    }
    let mut step = 0;
    while step < C {
        let e = any_env();
        kani::assume(r.deliverable(e));
        let drop: bool = kani::any();
        if drop {
            net.on_drop(env_of(e));
            r.consume(e);
        } else {
            net.on_deliver(env_of(e));
            r.deliver(e);
        }
        step += 1;
    }
    observe(&net, &r);
    kani::cover!(r.len() + C >= K || KIND == 0, "scenario end reached");
}

macro_rules! c07_harnesses {
    ($($name:ident: $kind:literal, $k:literal, $c:literal;)*) => {
        $(
            #[kani::proof]
            #[kani::unwind(7)]
            fn $name() {
                scenario::<$kind, $k, $c>();
            }
        )*
    };
}
c07_harnesses!(
    c07_dup_s1: 0, 1, 0; c07_dup_s2: 0, 2, 0; c07_dup_s2_c1: 0, 2, 1; c07_t_dup_s3_c1: 0, 3, 1; c07_t_dup_s2_c2: 0, 2, 2;
    c07_nondup_s1: 1, 1, 0; c07_nondup_s2: 1, 2, 0; c07_nondup_s2_c1: 1, 2, 1; c07_t_nondup_s3_c1: 1, 3, 1; c07_t_nondup_s2_c2: 1, 2, 2;
    c07_ordered_s1: 2, 1, 0; c07_ordered_s2: 2, 2, 0; c07_ordered_s2_c1: 2, 2, 1; c07_t_ordered_s3_c1: 2, 3, 1; c07_t_ordered_s2_c2: 2, 2, 2;
);

/// Messages that are not in flight cannot be consumed: on the non-duplicating and ordered kinds
/// delivering or dropping an envelope that was never sent (or was already consumed) is rejected
/// (must not return) instead of silently succeeding.
fn absent<const KIND: u8>() {
    let mut net = new_net(KIND);
    let mut r = Ref::new(KIND);
    let a = any_env();
    net.send(env_of(a));
    r.send(a);
    let e = any_env();
    kani::assume(r.cnt[e] == 0);
    kani::cover!(true, "reached consume of an absent envelope");
    if kani::any() {
        net.on_drop(env_of(e));
    } else {
        net.on_deliver(env_of(e));
    }
    kani::cover!(true, "EXPECT-UNSAT consumed an envelope that is not in flight");
}
#[kani::proof]
#[kani::unwind(7)]
fn c07_absent_nonduplicating() {
    absent::<1>();
}
#[kani::proof]
#[kani::unwind(7)]
fn c07_absent_ordered() {
    absent::<2>();
}

/// Vacuity twin.
#[kani::proof]
#[kani::unwind(7)]
fn c07_twin_must_fail() {
    let mut net = new_net(1);
    let e = any_env();
    net.send(env_of(e));
    net.send(env_of(e));
    assert!(net.len() == 1, "TWIN a non-duplicating network collapses copies (false)");
}
