"""Claim texts of the mirsym checks (pure data: also read by lib/props.py for MANIFEST.json)."""
EXPLAIN = {
    "C05": ("Job-broker protocol of the parallel checkers, decided from the compiler's MIR of src/job_market.rs: every JobBroker method is executed "
            "symbolically from an arbitrary market state into atomic segments (lock..unlock / lock..wait / wake..unlock); a BMC composes them with the worker "
            "loop of the checkers (pop -> block -> finish|split_and_push -> ... -> Drop) and lets z3 choose the schedule (which thread runs which critical "
            "section next, whom notify_one wakes), the block outcomes (jobs consumed/generated) and the stop reasons (finish/target/panic, empty batch). "
            "Obligations: no reachable state where a worker sleeps and nobody can ever move (lost wake-up/deadlock => join returns); while nobody asked to stop, "
            "market + local queues + consumed = initial + generated and nothing is discarded (no batch lost or handed to two workers); no batch in a closed market; "
            "on a closed market every broker call hands out nothing and never re-opens (stop propagates within one block per worker); the worker closures of bfs.rs/dfs.rs are executed symbolically from their MIR one round at a time "
            "(pop only on an empty queue, the popped batch is the queue worked on, exactly one block per round on the worker's own non-empty queue, nothing dropped while it keeps going, it leaves only after an empty batch / met finish condition / target count, "
            "every round of a busy worker observes a closed market, a panic unwinds through the broker's Drop) and the client automaton's sharing rule is derived from them; an inductive invariant "
            "(open => open_count = #active workers, last-worker rule never closes while work exists) proves the quiescence detection for schedules of ANY length."),
    "C12": ("Timeout clause of the run controls, decided from the MIR of the timeout thread (JobBroker::new::{closure#0}) with the clock a symbolic value: "
            "an iteration that sees closing_time < now closes the market and exits (dropping its broker clone, whose Drop wakes all waiters); before that it "
            "leaves the market untouched and goes back to sleep for one period - so the market is closed at most one sleep period plus one critical section "
            "after expiry, for every thread count; it never sleeps while holding the market mutex (an unexpired timeout takes no progress away from the "
            "workers); once closed, every worker's NEXT broker call (pop/split_and_push/push) observes it and hands out nothing. That a busy worker makes such a call is decided on the MIR of the bfs.rs/dfs.rs worker closures, executed symbolically one round at a time (queue lengths, thread count, block outcome, finish verdict symbolic): a round without a broker call that observes the market must end with an empty queue (so the next round starts with pop) - otherwise rounds that never look at the market can follow each other for ever and the timeout is ignored. Finish-condition and target wiring of those closures: a worker leaves its loop only after pop returned an empty batch, after finish_when.matches(..) returned true, or when target_state_count <= state_count (the verdict of matches itself and the counter are arbitrary values here). Depth limit: check_block of bfs.rs and dfs.rs is executed from its MIR one job at a time with the job's depth d and target_max_depth symbolic (inner loops over properties and successors abstracted by havocking what they assign; model callbacks, property conditions, visitor, DashMap arbitrary): a popped job is skipped only if the limit is set and d >= limit (every state nearer than the limit is evaluated), an evaluated job has d <= limit (nothing deeper is evaluated), and every successor is queued with depth d + 1; spawn() queues the initial states with depth 1 and - from the MIR of spawn() with the builder's fields as distinct opaque values - hands options.target_max_depth and options.target_state_count to every worker unchanged and creates the broker for options.thread_count workers."),
}
EXPLAIN["C13"] = ("Single-threaded BFS order, decided from the MIR of bfs.rs: check_block is executed one job at a time (depth symbolic, every callee arbitrary, inner loops abstracted by havoc): "
                  "every job is taken with pop_back and every successor queued with push_front (first-in first-out), with the depth of its predecessor plus one; spawn() queues the initial states with depth 1 and pushes them to the job market as exactly one batch (never inside a loop); "
                  "with one worker thread the broker neither splits nor reorders the worker's queue (split_and_push leaves queue and market untouched, pop hands out the one initial batch whole - from the MIR of job_market.rs); "
                  "a z3-checked inductive step over the abstract queue composes these facts: the queue stays sorted over two consecutive depths, so states are evaluated in non-decreasing depth. "
                  "For the witness clause: a discovery for an always/sometimes property is recorded only while the property has none yet (first one wins) and with the fingerprint of the job being evaluated; "
                  "a newly generated state gets the evaluated job as its parent, and the parent of an already generated state is never overwritten - so the first recorded witness is one of minimal depth and its parent chain has that length.")

EXPLAIN["C06"] = ("One transition of an actor model, decided from the MIR of ActorModel::next_state and ActorModel::process_commands (src/actor/model.rs) with every callee arbitrary (handlers, history hooks, network, timers, random choices), loops havocked, "
                  "and opaque values that keep their provenance, so that object identity can be compared per path: a transition invokes at most one handler (Drop and Crash none); the successor returned is the clone of the last state made on that path and every "
                  "mutating call targets that clone (nothing else changes, the last state is never written); with a handler there is exactly one process_commands, after it, for the same actor id, with the Out the handler filled; Deliver: record_msg_in runs after the handler "
                  "and before the commands are processed and the envelope is consumed from the successor's network exactly once; Timeout: the fired timer is cancelled first; SelectRandom: the selected choice is removed first; no transition is returned only before any handler ran "
                  "or directly after a handler whose step was a no-op, and such a path changes nothing; Crash cancels timers, clears choices, sets the flag. process_commands: per command, in the Out's own iteration order: Send -> record_msg_out, then exactly one Network::send "
                  "of an envelope whose source is this actor, on the state being built; SetTimer / CancelTimer / ChooseRandom -> exactly one Timers::set / Timers::cancel / insert-or-remove of a random choice.")

BOUNDS = {
    "C05": {"quick": {"threads": "2 (K=10), 3 (K=8)", "jobs_per_queue": "<=6", "generated_per_block": "<=2", "market_batches": "<=4", "invariant": "inductive: any schedule length, T=2 and T=3"},
            "thorough": {"threads": "2 (K=14; K=10 with spurious wake-ups), 3 (K=10; K=8 with spurious wake-ups)", "jobs_per_queue": "<=6", "generated_per_block": "<=2", "market_batches": "<=4", "variants": "with and without spurious wake-ups", "invariant": "inductive, T=2 and T=3"}},
    "C12": {"quick": {"paths": "all paths of one loop iteration of the timeout thread (arbitrary market state and clock); all paths of one round of the bfs.rs/dfs.rs worker closures; all paths of one job through check_block of bfs.rs/dfs.rs with each inner loop abstracted (havoc at the loop head, exit path + one body iteration)"}, "thorough": {"paths": "same (the check is not bounded in schedule length)"}},
}
BOUNDS["C13"] = {"quick": {"paths": "all paths of one job through bfs.rs check_block (inner loops abstracted: havoc at the loop head, exit path + one body iteration); all summaries of split_and_push/pop for thread_count = 1; one inductive step over the abstract queue (any length)"},
                 "thorough": {"paths": "same (not bounded in run length)"}}

BOUNDS["C06"] = {"quick": {"paths": "all 12 paths of next_state and all 8 paths of process_commands (its command loop abstracted: havoc at the loop head, exit path + one body iteration)"}, "thorough": {"paths": "same"}}

OUTSIDE = {
    "C05": ["equality of the evaluated state set / verdicts with the single-threaded run (needs check_block + DashMap arbitration; see C01)", "more than 3 worker threads, longer schedules for the BMC obligations", "memory-model effects (all shared state is mutex-protected)", "OS scheduling fairness; the timeout stop reason (see C12)", "the on_demand.rs worker closure (not encoded)"],
    "C12": ["the on_demand.rs worker closure (same sharing code, blocks on a control channel; not encoded - OnDemandChecker::join cannot return anyway)", "the length of one block of work (check_block evaluates up to 1500 states between two broker calls)", "what HasDiscoveries::matches computes (CBMC out of memory, measured) and which discoveries/properties it is handed; the state counter's accuracy", "that BFS's FIFO order makes the depth label the true distance (see C13) (queue order is not modelled: lengths only); the on_demand checker's check_block (it has no depth limit)", "simulation seeding (RNG + HashSet) and the simulation checker's own shutdown flag", "wall-clock accuracy of real sleeps"],
}
OUTSIDE["C13"] = ["reconstruct_path / Path::from_fingerprints (how the reported path is rebuilt from the parent pointers) - see C19 for the Path API", "that depth labels equal true distances on the model's graph (follows from the order + first-generation parent rule, argued, not encoded)",
                  "the queue's contents (lengths only): the FIFO argument rests on the two VecDeque end operations used and on std's VecDeque contract", "multi-threaded BFS (the property is about the single-threaded checker)"]

OUTSIDE["C06"] = ["what the callees do: Network::send/on_deliver/on_drop (C07), Timers, RandomChoices, is_no_op / is_no_op_with_timer, the handlers and hooks themselves", "which values are handed to the handler and the hooks beyond object identity of id / Out / successor (message, source, timer, key contents)",
                  "that the no-op early return applies only to unordered networks (the `matches!(init_network, Ordered)` test is an arbitrary condition here)", "init_states() (start-up step: on_start, initial commands)", "actions(): which transitions are offered", "the order of commands inside Out (a Vec; the loop is its own iterator)"]

ASSUME = [
    "crate `log` replaced by a model whose macros expand to nothing",
    "crate `parking_lot` replaced by a model exposing lock / wait / notify_one / notify_all / guard drop as sync points; contract: mutual exclusion, wait releases and re-acquires atomically, notify_one wakes at most one CURRENT waiter (solver-chosen), notify_all all current waiters; spurious wake-ups allowed in the thorough variant",
    "Vec<VecDeque<Job>> / VecDeque<Job> abstracted to their lengths (jobs are opaque and conserved by new/len/is_empty/clear/push/pop/split_off); job_batches capacity 4 in the model (exceeding it is reported, not ignored)",
    "the worker loop of the BMC's client automaton (pop on empty queue -> one block -> stop | split_and_push -> ...) is checked against the MIR of the bfs.rs/dfs.rs spawn() closures on every run (worker-loop obligations) and its sharing rule (`len > 1 && thread_count > 1` or unconditional) is derived from that MIR; the on_demand.rs closure is not encoded",
    "check_block (depth obligations): every callee is arbitrary except queue pop/push, NonZero arithmetic and the depth comparison; inner loops are over-approximated by havocking, at the loop head, every local assigned in the loop and every queue length; `otherwise -> unreachable` switch arms emitted by rustc for exhaustive enum matches are trusted",
    "worker closures: check_block sets the local queue to an arbitrary length, HasDiscoveries::matches returns an arbitrary bool, atomic loads arbitrary values, JobBroker::pop an arbitrary batch, split_and_push leaves an arbitrary part of the queue; any other callee that is handed neither the broker nor a queue returns an arbitrary value of its type and cannot reach them (both are owned by the closure); a callee that is handed one and has no model makes the check inconclusive",
]

ASSUME.append("C06/C13/C17(runtime loop)/spawn(): values returned by the tracked calls are distinct opaque objects and every projection or indexing of an opaque object is a distinct opaque object with recorded provenance; 'the same object' means equal provenance on the path; enum-variant aggregates are tracked by variant name and a path that views a value as another variant is pruned as infeasible")

TECHNIQUE = {
    "C05": "symbolic execution of the compiler's MIR into SMT (mirsym + z3): bounded model checking over worker schedules, an inductive invariant, and per-path obligations on the worker closures",
    "C06": "symbolic execution of the compiler's MIR (mirsym) with arbitrary callees and object identity by provenance; per-path obligations, path feasibility decided by z3",
    "C12": "symbolic execution of the compiler's MIR into SMT (mirsym + z3): per-path obligations on the timeout thread, the worker closures, one job of check_block and spawn(), symbolic clock / depths / limits",
    "C13": "symbolic execution of the compiler's MIR into SMT (mirsym + z3): per-path obligations on one job of bfs.rs check_block, spawn() and the single-worker broker summaries, composed by a z3-checked inductive step",
}

