"""Parser for the subset of rustc's `-Zunpretty=mir` text that `mirsym` executes.

Anything outside the supported subset raises `Unsupported` with the offending line - the encoder
never guesses; the run is then reported as inconclusive.
"""
import re
from dataclasses import dataclass, field
from typing import List, Optional, Tuple, Dict, Any


class Unsupported(Exception):
    pass


# ---- places and operands -----------------------------------------------------------------------


@dataclass(frozen=True)
class Place:
    local: int
    proj: Tuple[Any, ...] = ()  # sequence of ('deref',) | ('field', k) | ('downcast', 'Variant') | ('index', local)

    def __str__(self):
        s = f"_{self.local}"
        for p in self.proj:
            s += "." + ":".join(str(x) for x in p)
        return s


@dataclass(frozen=True)
class Operand:
    kind: str  # 'copy' | 'move' | 'const'
    place: Optional[Place] = None
    const: Any = None  # (value, type)


def _strip_outer_parens(s):
    s = s.strip()
    while s.startswith("(") and _matching(s, 0) == len(s) - 1:
        s = s[1:-1].strip()
    return s


def _matching(s, i):
    """index of the bracket matching s[i]"""
    op = s[i]
    cl = {"(": ")", "[": "]", "{": "}", "<": ">"}[op]
    d = 0
    j = i
    while j < len(s):
        c = s[j]
        if c == op:
            d += 1
        elif c == cl:
            # '->' is not a closing angle bracket
            if not (cl == ">" and j > 0 and s[j - 1] == "-"):
                d -= 1
                if d == 0:
                    return j
        j += 1
    raise Unsupported(f"unbalanced brackets in {s!r}")


def split_top(s, sep=","):
    """split on sep at bracket depth 0 (round, square, curly and angle brackets; '->' aware)"""
    out, d, cur = [], 0, ""
    i = 0
    while i < len(s):
        c = s[i]
        if c in "([{":
            d += 1
        elif c in ")]}":
            d -= 1
        elif c == "<":
            d += 1
        elif c == ">" and not (i > 0 and s[i - 1] in "-="):
            d -= 1
        if c == sep and d == 0:
            out.append(cur.strip())
            cur = ""
        else:
            cur += c
        i += 1
    if cur.strip():
        out.append(cur.strip())
    return out


def parse_place(s) -> Place:
    s = s.strip()
    m = re.fullmatch(r"_(\d+)", s)
    if m:
        return Place(int(m.group(1)))
    if s.startswith("(") and _matching(s, 0) == len(s) - 1:
        inner = s[1:-1].strip()
        if inner.startswith("*"):
            p = parse_place(inner[1:])
            return Place(p.local, p.proj + (("deref",),))
        # (P.k: T)  or (P as Variant)
        m = re.match(r"^(.*) as (\w+)$", inner)
        if m and ":" not in inner.split(" as ")[-1]:
            p = parse_place(m.group(1))
            return Place(p.local, p.proj + (("downcast", m.group(2)),))
        # field: find the LAST '.<digits>:' at depth 0
        d = 0
        pos = None
        for i, c in enumerate(inner):
            if c in "([{<":
                d += 1
            elif c in ")]}":
                d -= 1
            elif c == ">" and not (i > 0 and inner[i - 1] in "-="):
                d -= 1
            elif c == "." and d == 0:
                m2 = re.match(r"\.(\d+):", inner[i:])
                if m2:
                    pos = (i, int(m2.group(1)))
                    break
        if pos:
            base = parse_place(inner[: pos[0]])
            return Place(base.local, base.proj + (("field", pos[1]),))
    m = re.fullmatch(r"(.*)\[_(\d+)\]", s)
    if m:
        p = parse_place(m.group(1))
        return Place(p.local, p.proj + (("index", int(m.group(2))),))
    raise Unsupported(f"place: {s!r}")


def parse_operand(s) -> Operand:
    s = s.strip()
    if s.startswith("copy "):
        return Operand("copy", parse_place(s[5:]))
    if s.startswith("move "):
        return Operand("move", parse_place(s[5:]))
    if s.startswith("const "):
        c = s[6:].strip()
        m = re.fullmatch(r"(-?\d+)_(u8|u16|u32|u64|usize|i8|i16|i32|i64|isize)", c)
        if m:
            return Operand("const", const=(int(m.group(1)), m.group(2)))
        if c in ("true", "false"):
            return Operand("const", const=(c == "true", "bool"))
        if c == "()":
            return Operand("const", const=((), "unit"))
        return Operand("const", const=(c, "opaque"))
    raise Unsupported(f"operand: {s!r}")


# ---- statements and terminators -------------------------------------------------------------------


@dataclass
class Assign:
    dst: Place
    rv: Tuple  # ('use', op) | ('ref', place, mut) | ('bin', opname, a, b) | ('cbin', opname, a, b) | ('un', opname, a)
    #            | ('discr', place) | ('agg', name, {field: op} | [ops]) | ('cast', op, ty)
    text: str = ""


@dataclass
class Term:
    kind: str  # goto | switch | call | drop | assert | return | unreachable | resume
    args: Dict[str, Any] = field(default_factory=dict)
    text: str = ""


@dataclass
class Block:
    name: int
    cleanup: bool
    stmts: List[Assign]
    term: Term


@dataclass
class Body:
    name: str
    params: List[int]
    locals_ty: Dict[int, str]
    blocks: Dict[int, Block]
    text: str


BINOPS = {"Eq", "Ne", "Lt", "Le", "Gt", "Ge", "Add", "Sub", "Mul", "Div", "Rem", "BitAnd", "BitOr", "BitXor"}
CHECKED = {"AddWithOverflow": "Add", "SubWithOverflow": "Sub", "MulWithOverflow": "Mul"}


def parse_rvalue(s):
    s = s.strip()
    if s.startswith("&mut "):
        return ("ref", parse_place(s[5:]), True)
    if s.startswith("&raw "):
        raise Unsupported(f"raw borrow: {s}")
    if s.startswith("&"):
        return ("ref", parse_place(s[1:]), False)
    m = re.match(r"^(\w+)\((.*)\)$", s)
    if m:
        name, inner = m.group(1), m.group(2)
        if name in BINOPS:
            a, b = split_top(inner)
            return ("bin", name, parse_operand(a), parse_operand(b))
        if name in CHECKED:
            a, b = split_top(inner)
            return ("cbin", CHECKED[name], parse_operand(a), parse_operand(b))
        if name in ("Not", "Neg"):
            return ("un", name, parse_operand(inner))
        if name == "discriminant":
            return ("discr", parse_place(inner))
    if s.startswith("copy ") or s.startswith("move ") or s.startswith("const "):
        m = re.match(r"^(.*) as ([\w:<>]+) \(\w+\)$", s)
        if m:
            return ("cast", parse_operand(m.group(1)), m.group(2))
        return ("use", parse_operand(s))
    # tuple aggregate
    if s.startswith("(") and _matching(s, 0) == len(s) - 1:
        inner = s[1:-1].strip()
        ops = [parse_operand(x) for x in split_top(inner)] if inner else []
        return ("agg", "tuple", ops)
    # Option::<T>::Some(op) / None
    m = re.match(r"^(?:std::option::)?Option::<.*>::Some\((.*)\)$", s)
    if m:
        return ("agg", "Some", [parse_operand(m.group(1))])
    if re.match(r"^(?:std::option::)?Option::<.*>::None$", s):
        return ("agg", "None", [])
    # struct aggregate  Name { f: op, ... }   or closure {closure@..} { captures }
    m = re.match(r"^(\{closure@[^}]*\}|[\w:<>, ]+?) \{(.*)\}$", s)
    if m:
        name = m.group(1).strip()
        fields = {}
        body = m.group(2).strip()
        if body:
            for kv in split_top(body):
                k, v = kv.split(":", 1)
                fields[k.strip()] = parse_operand(v)
        return ("agg", name, fields)
    # tuple-like enum variant aggregate  Path::<..>::Variant(op, ...)
    m = re.match(r"^(.*)::(\w+)\((.*)\)$", s)
    if m and re.match(r"^[A-Za-z_][\w:<>, &'\[\]()]*$", m.group(1)) and not m.group(1).startswith(("copy ", "move ", "const ")):
        inner = m.group(3).strip()
        try:
            ops = [parse_operand(x) for x in split_top(inner)] if inner else []
            return ("agg", "variant:" + m.group(2), ops)
        except Unsupported:
            pass
    # unit-like enum variant / path constant (e.g. std::sync::atomic::Ordering::Relaxed)
    if re.fullmatch(r"[\w:]+", s) and "::" in s:
        return ("use", Operand("const", const=(s, "opaque")))
    raise Unsupported(f"rvalue: {s!r}")


def parse_targets(s):
    """'[return: bb1, unwind continue]' -> dict"""
    s = s.strip()
    out = {}
    if s.startswith("["):
        s = s[1:-1]
    for part in split_top(s):
        part = part.strip()
        m = re.match(r"^(\w+): bb(\d+)$", part)
        if m:
            out[m.group(1)] = int(m.group(2))
        elif part.startswith("unwind"):
            out["unwind"] = part[len("unwind"):].strip()
        else:
            raise Unsupported(f"targets: {part!r}")
    return out


def parse_terminator(line) -> Term:
    t = line.strip().rstrip(";")
    if t == "return":
        return Term("return", text=t)
    if t == "unreachable":
        return Term("unreachable", text=t)
    if t == "resume":
        return Term("resume", text=t)
    m = re.match(r"^goto -> bb(\d+)$", t)
    if m:
        return Term("goto", {"target": int(m.group(1))}, t)
    m = re.match(r"^switchInt\((.*)\) -> \[(.*)\]$", t)
    if m:
        arms = []
        other = None
        for part in split_top(m.group(2)):
            k, v = part.split(":")
            v = int(v.strip()[2:])
            if k.strip() == "otherwise":
                other = v
            else:
                arms.append((int(k.strip()), v))
        return Term("switch", {"op": parse_operand(m.group(1)), "arms": arms, "otherwise": other}, t)
    m = re.match(r"^drop\((.*)\) -> (.*)$", t)
    if m:
        return Term("drop", {"place": parse_place(m.group(1)), "targets": parse_targets(m.group(2))}, t)
    m = re.match(r"^assert\((.*)\) -> (\[.*\])$", t)
    if m:
        parts = split_top(m.group(1))
        cond = parts[0].strip()
        neg = cond.startswith("!")
        if neg:
            cond = cond[1:].strip()
        return Term("assert", {"cond": parse_operand(cond), "neg": neg, "msg": parts[1] if len(parts) > 1 else "", "targets": parse_targets(m.group(2))}, t)
    # call:  [PLACE = ] FUNC(ARGS) -> targets
    m = re.match(r"^(?:(.*?) = )?(.*) -> (\[.*\]|unwind .*|bb\d+)$", t)
    if m:
        dst, call, tg = m.group(1), m.group(2).strip(), m.group(3)
        if not call.endswith(")"):
            raise Unsupported(f"call: {t!r}")
        # find the '(' matching the final ')'
        d = 0
        i = len(call) - 1
        while i >= 0:
            if call[i] == ")":
                d += 1
            elif call[i] == "(":
                d -= 1
                if d == 0:
                    break
            i -= 1
        func = call[:i].strip()
        def _arg(a):
            try:
                return parse_operand(a)
            except Unsupported:
                return Operand("const", const=(a.strip(), "opaque"))  # e.g. a function item passed by name
        args = [_arg(a) for a in split_top(call[i + 1:-1])] if call[i + 1:-1].strip() else []
        # `-> bbN` without brackets: a diverging call whose only successor is the unwind (cleanup) block
        targets = parse_targets(tg) if tg.startswith("[") else ({"unwind": tg} if tg.startswith("bb") else {"unwind": tg[len("unwind"):].strip()})
        return Term("call", {"dst": parse_place(dst) if dst else None, "func": func, "args": args, "targets": targets}, t)
    raise Unsupported(f"terminator: {t!r}")


def parse_statement(line) -> Optional[Assign]:
    t = line.strip().rstrip(";")
    if t.startswith(("StorageLive", "StorageDead", "nop", "FakeRead", "PlaceMention", "Retag", "AscribeUserType", "Coverage", "ConstEvalCounter")):
        return None
    m = re.match(r"^(.*?) = (.*)$", t)
    if not m:
        raise Unsupported(f"statement: {t!r}")
    try:
        rv_text = m.group(2)
        if rv_text.startswith("no_retag "):
            rv_text = rv_text[len("no_retag "):]
        return Assign(parse_place(m.group(1)), parse_rvalue(rv_text), t)
    except Unsupported as e:
        # kept as an opaque statement: only an execution that reaches it is unsupported
        try:
            dst = parse_place(m.group(1))
        except Unsupported:
            dst = Place(0)
        return Assign(dst, ("unsupported", str(e)), t)


TERM_START = ("goto", "switchInt", "return", "unreachable", "resume", "drop(", "assert(")


def parse_body(text) -> Body:
    lines = text.splitlines()
    hdr = lines[0]
    m = re.match(r"^fn (.*?)\((.*)\) -> (.*) \{$", hdr)
    if not m:
        raise Unsupported(f"header: {hdr!r}")
    name = m.group(1)
    params = [int(x) for x in re.findall(r"_(\d+):", m.group(2))]
    locals_ty = {}
    blocks = {}
    i = 1
    cur = None
    while i < len(lines):
        ln = lines[i].strip()
        i += 1
        if not ln or ln.startswith(("debug ", "scope ", "}")):
            if ln == "}" and cur is not None:
                cur = None
            continue
        m = re.match(r"^let (?:mut )?_(\d+): (.*);$", ln)
        if m and cur is None:
            locals_ty[int(m.group(1))] = m.group(2)
            continue
        m = re.match(r"^bb(\d+)( \(cleanup\))?: \{$", ln)
        if m:
            cur = Block(int(m.group(1)), bool(m.group(2)), [], None)
            blocks[cur.name] = cur
            continue
        if cur is None:
            continue
        # inside a block: the terminator is the last line before '}'
        nxt = lines[i].strip() if i < len(lines) else "}"
        if nxt == "}":
            cur.term = parse_terminator(ln)
        else:
            st = parse_statement(ln)
            if st:
                cur.stmts.append(st)
    for b in blocks.values():
        if b.term is None:
            raise Unsupported(f"block bb{b.name} of {name} has no terminator")
    return Body(name, params, locals_ty, blocks, text)


def split_functions(mir_text):
    parts = re.split(r"\n(?=fn )", mir_text)
    out = []
    for p in parts:
        if not p.startswith("fn "):
            continue
        # a function ends at its closing brace in column 0; promoted constants and statics that
        # follow it in the dump (they have their own bb0) are not part of it
        i = p.find("\n}\n")
        out.append(p[:i + 3] if i >= 0 else p)
    return out
