#!/usr/bin/env python3
"""Regenerates the seeded-change table of DESIGN.md (between the SEEDED-TABLE markers) from seeded/*/meta.json."""
import json, os, re, glob
V='/verif'
rows=[]
for d in sorted(glob.glob(V+'/seeded/*/meta.json')):
    m=json.load(open(d)); sid=m['id']
    notes=open(os.path.dirname(d)+'/notes.md').read() if os.path.exists(os.path.dirname(d)+'/notes.md') else ''
    # one-line description: first non-empty, non-heading line of notes
    desc=''
    for l in notes.splitlines():
        l=l.strip(' -*#')
        if len(l)>25 and not l.lower().startswith(('mutation','notes','refactoring','test','file')):
            desc=l; break
    desc=re.sub(r'\s+',' ',desc)[:170]
    runs=m.get('checks_run_against_it',{})
    out=[]
    for prop,r in sorted(runs.items()):
        o=r['outcome']
        if sid.startswith('benign'):
            out.append(f"{prop}: "+{'MISSED':'exit 0 (no alarm)','INCONCLUSIVE':'exit 2 (inconclusive, no VIOLATION line)','DETECTED':'**FALSE ALARM**'}[o])
        else:
            det=re.findall(r'failed: ([^@|]+)',r.get('detail',''))
            out.append(f"{prop}: "+{'DETECTED':'**detected**'+(f" ({det[0].strip()[:90]})" if det else ''),'MISSED':'missed','INCONCLUSIVE':'exit 2 (inconclusive)'}[o])
    if m.get('note'): out.append('note: '+m['note'])
    rows.append(f"| {sid} | {desc} | {'; '.join(out) or 'not run'} |")
tbl="| seeded change | what it does (from its notes.md) | checks run against it |\n|---|---|---|\n"+"\n".join(rows)
p=V+'/DESIGN.md'; s=open(p).read()
a=s.index('<!-- SEEDED-TABLE-BEGIN -->')+len('<!-- SEEDED-TABLE-BEGIN -->'); b=s.index('<!-- SEEDED-TABLE-END -->')
open(p,'w').write(s[:a]+"\n"+tbl+"\n"+s[b:])
print(len(rows),'rows')
