"""Properties not claimed, with the measured reason (DESIGN.md sections 1 and 4)."""
HOOK_COMMITS = []
_LOOPS = ("needs the checker loops (check_block / worker closures) run to fixpoint on a symbolic graph; measured: CBMC gives no verdict "
          "even for a concrete 2-state graph with DashMap replaced by a Vec model (symex path explosion through heap-resident VecDeque/Vec<Property>), "
          "and no MIR-level symbolic engine with container models exists in the image")
NOT_APPLICABLE = {
    "C01": _LOOPS,
    "C02": "verdict exactness is a function of the completed exploration: " + _LOOPS,
    "C03": "witness paths come out of the checker loops and Path::from_fingerprints over DashMap parent pointers: " + _LOOPS,
    "C06": 'every transition clones Network/Timers/RandomChoices: with hashbrown a single symbolic-key insert costs 318 s in CBMC; with Vec-backed container models a one-actor Crash/Deliver step with EMPTY containers costs 15-60 s (x15 per extra actor) and a one-actor Deliver whose handler emits one Send ran >20 min / 27 GB without a verdict (measured) - the property is about multi-command handlers in multi-actor systems',
    "C07": 'with Vec-backed container models only the duplicating kind is cheap (4 s); on the non-duplicating kind new+send+len costs 96 s, +iter_all 244 s, and two sends plus observation run out of memory; on the ordered kind likewise (measured); the MIR route for NetworkIter was not built; the iterator defects are listed in DESIGN 5, not claimed',
    "C08": "the tester's state is nested BTreeMap<ThreadId, VecDeque<(BTreeMap<..>, Op, Ret)>> cloned per recursion level; a 1-thread 2-op history gave no CBMC verdict in 7 min",
    "C11": "ebits propagation lives in check_block / check_trace_from_initial: " + _LOOPS,
    "C13": "FIFO discipline and parent pointers are inside check_block/reconstruct_path: " + _LOOPS,
    "C14": "same BTreeMap-bound data structures as C08 (measured there)",
    "C16": "protocol invariant over all drop/duplicate/reorder interleavings with HashableHashMap state per actor; a handler-level slice (real ActorWrapper around a recording actor, two Deliver messages in order / duplicated / reordered, modelled maps) ran out of memory in CBMC's propositional reduction for every harness (measured); the reordering loss is reported in DESIGN 5, not claimed",
}
