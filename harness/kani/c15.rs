//! C15 — actor adapters are transparent to the actor they wrap.
//!
//! One handler step from an arbitrary wrapped state, for every event kind and argument value.
//! The adapters are stateless, so one step covers executions of any length (inductive step).
//! Instantiations: probe actor `P<M>` with `M = u8`, `RegisterMsg<u64,char,u8>`,
//! `WORegisterMsg<u64,char,u8>`; `Timer = u8`, `Random = u8`; adapters `Choice<P,Never>`,
//! `Choice<P,Q>` (L), `Choice<Q,P>` (R), `choice![Q,Q,P]` (three levels),
//! `RegisterActor::Server(P)`, `WORegisterActor::Server(P)`; scripted client `Vec<(Id,u8)>`.
use crate::actor::register::{RegisterActor, RegisterActorState, RegisterMsg};
use crate::actor::write_once_register::{WORegisterActor, WORegisterActorState, WORegisterMsg};
use crate::actor::{Actor, Command, Id, Out};
use choice::{Choice, Never};
use std::borrow::Cow;
use std::fmt::Debug;
use std::hash::Hash;
use std::time::Duration;

pub trait AnyMsg: Clone + Debug + Eq + Hash {
    fn any_msg() -> Self;
}
impl AnyMsg for u8 {
    fn any_msg() -> Self {
        kani::any()
    }
}
impl AnyMsg for RegisterMsg<u64, char, u8> {
    fn any_msg() -> Self {
        let k: u8 = kani::any();
        match k {
            0 => RegisterMsg::Internal(kani::any()),
            1 => RegisterMsg::Put(kani::any(), kani::any()),
            2 => RegisterMsg::Get(kani::any()),
            3 => RegisterMsg::PutOk(kani::any()),
            _ => RegisterMsg::GetOk(kani::any(), kani::any()),
        }
    }
}
impl AnyMsg for WORegisterMsg<u64, char, u8> {
    fn any_msg() -> Self {
        let k: u8 = kani::any();
        match k {
            0 => WORegisterMsg::Internal(kani::any()),
            1 => WORegisterMsg::Put(kani::any(), kani::any()),
            2 => WORegisterMsg::Get(kani::any()),
            3 => WORegisterMsg::PutOk(kani::any()),
            4 => WORegisterMsg::PutFail(kani::any()),
            _ => WORegisterMsg::GetOk(kani::any(), kani::any()),
        }
    }
}

/// What the probe observed in its last handler call, plus the event kind it saw before that
/// (so that "every handler receives the state left by the previous one" is observable).
#[derive(Clone, Debug, PartialEq, Eq, Hash)]
pub struct PState<M> {
    ev: u8,
    id: Id,
    src: Id,
    msg: Option<M>,
    arg: u8,
    prev_ev: u8,
}

/// One scripted command: kind 0 Send, 1 SetTimer, 2 CancelTimer, 3 ChooseRandom.
#[derive(Clone, Debug)]
pub struct PCmd<M> {
    kind: u8,
    a: u8,
    b: u8,
    msg: M,
}

/// Probe actor: its behaviour (whether it writes its state, which commands it emits) is chosen
/// by the solver; payloads additionally depend on the handler arguments.
#[derive(Clone, Debug)]
pub struct P<M> {
    mutate: bool,
    ncmd: u8,
    c0: PCmd<M>,
    c1: PCmd<M>,
}

impl<M: AnyMsg> P<M> {
    /// Script shape (number and kinds of commands) is concrete per call site - a symbolic command
    /// kind mixes heap-carrying and plain variants in one vector and makes CBMC run out of
    /// memory; payloads, and whether the state is written, stay symbolic.
    fn any(ncmd: u8, k0: u8, k1: u8) -> Self {
        P {
            mutate: kani::any(),
            ncmd,
            c0: PCmd { kind: k0, a: kani::any(), b: kani::any(), msg: M::any_msg() },
            c1: PCmd { kind: k1, a: kani::any(), b: kani::any(), msg: M::any_msg() },
        }
    }
    fn emit_one(&self, c: &PCmd<M>, arg: u8, o: &mut Out<Self>) {
        let x = c.a ^ arg;
        match c.kind {
            0 => o.send(Id::from(x as usize), c.msg.clone()),
            1 => o.set_timer(x, Duration::from_secs(c.b as u64)..Duration::from_secs(c.b as u64 + 1)),
            2 => o.cancel_timer(x),
            _ => {
                let key = if c.b & 1 == 0 { "a" } else { "b" };
                let v = match c.b >> 6 {
                    0 => vec![],
                    1 => vec![x],
                    _ => vec![x, c.b],
                };
                o.choose_random(key, v)
            }
        }
    }
    fn emit(&self, arg: u8, o: &mut Out<Self>) {
        if self.ncmd >= 1 {
            self.emit_one(&self.c0, arg, o);
        }
        if self.ncmd >= 2 {
            self.emit_one(&self.c1, arg, o);
        }
    }
}

impl<M: AnyMsg> Actor for P<M> {
    type Msg = M;
    type State = PState<M>;
    type Timer = u8;
    type Random = u8;
    fn on_start(&self, id: Id, o: &mut Out<Self>) -> Self::State {
        self.emit(1, o);
        PState { ev: 1, id, src: Id::from(0usize), msg: None, arg: 0, prev_ev: 0 }
    }
    fn on_msg(&self, id: Id, state: &mut Cow<Self::State>, src: Id, msg: Self::Msg, o: &mut Out<Self>) {
        self.emit(2, o);
        if self.mutate {
            let prev = state.ev;
            *state.to_mut() = PState { ev: 2, id, src, msg: Some(msg), arg: 0, prev_ev: prev };
        }
    }
    fn on_timeout(&self, id: Id, state: &mut Cow<Self::State>, timer: &Self::Timer, o: &mut Out<Self>) {
        self.emit(*timer, o);
        if self.mutate {
            let prev = state.ev;
            *state.to_mut() = PState { ev: 3, id, src: Id::from(0usize), msg: None, arg: *timer, prev_ev: prev };
        }
    }
    fn on_random(&self, id: Id, state: &mut Cow<Self::State>, random: &Self::Random, o: &mut Out<Self>) {
        self.emit(*random, o);
        if self.mutate {
            let prev = state.ev;
            *state.to_mut() = PState { ev: 4, id, src: Id::from(0usize), msg: None, arg: *random, prev_ev: prev };
        }
    }
    fn name(&self) -> String {
        "p".to_owned()
    }
}

/// A second actor type with the same alphabets, to fill the other position of `Choice`.
#[derive(Clone, Debug)]
pub struct Q<M>(std::marker::PhantomData<M>);
impl<M: AnyMsg> Actor for Q<M> {
    type Msg = M;
    type State = u8;
    type Timer = u8;
    type Random = u8;
    fn on_start(&self, _id: Id, _o: &mut Out<Self>) -> Self::State {
        0
    }
    fn name(&self) -> String {
        "q".to_owned()
    }
}

fn cmd_eq<M: PartialEq>(x: &Command<M, u8, u8>, y: &Command<M, u8, u8>) -> bool {
    match (x, y) {
        (Command::Send(d1, m1), Command::Send(d2, m2)) => d1 == d2 && m1 == m2,
        (Command::SetTimer(t1, r1), Command::SetTimer(t2, r2)) => t1 == t2 && r1 == r2,
        (Command::CancelTimer(t1), Command::CancelTimer(t2)) => t1 == t2,
        (Command::ChooseRandom(k1, v1), Command::ChooseRandom(k2, v2)) => {
            k1.as_bytes()[0] == k2.as_bytes()[0] && k1.len() == k2.len() && v1.len() == v2.len() && {
                let mut ok = true;
                let mut i = 0;
                while i < v1.len() {
                    if v1[i] != v2[i] {
                        ok = false;
                    }
                    i += 1;
                }
                ok
            }
        }
        _ => false,
    }
}

fn out_eq<M: PartialEq>(x: &[Command<M, u8, u8>], y: &[Command<M, u8, u8>]) -> bool {
    if x.len() != y.len() {
        return false;
    }
    let mut i = 0;
    let mut ok = true;
    while i < x.len() {
        if !cmd_eq(&x[i], &y[i]) {
            ok = false;
        }
        i += 1;
    }
    ok
}

fn any_state<M: AnyMsg>() -> PState<M> {
    let has: bool = kani::any();
    PState {
        ev: kani::any(),
        id: Id::from(kani::any::<usize>()),
        src: Id::from(kani::any::<usize>()),
        msg: if has { Some(M::any_msg()) } else { None },
        arg: kani::any(),
        prev_ev: kani::any(),
    }
}

/// Start-up on the bare probe and on the adapter around it: same arguments seen (recorded in
/// the state), same initial state, same commands in the same order.
fn check_start<M, W>(
    script: (u8, u8, u8),
    wrap_a: fn(P<M>) -> W,
    unwrap_s: fn(&W::State) -> &PState<M>,
) where
    M: AnyMsg,
    W: Actor<Msg = M, Timer = u8, Random = u8>,
{
    let p: P<M> = P::any(script.0, script.1, script.2);
    let id = Id::from(kani::any::<usize>());
    let w = wrap_a(p.clone());
    let mut od: Out<P<M>> = Out::new();
    let mut ow: Out<W> = Out::new();
    let sd = p.on_start(id, &mut od);
    let sw = w.on_start(id, &mut ow);
    assert!(unwrap_s(&sw) == &sd, "C15 on_start: same arguments seen and same initial state");
    assert!(out_eq(&od, &ow), "C15 on_start: same commands in the same order");
    kani::cover!(script.0 != 2 || od.len() == 2, "two commands emitted");
}

/// Runs one event (1 msg, 2 timeout, 3 random) on the bare probe and on the adapter around it
/// and compares everything observable: arguments seen (recorded in the state), resulting state,
/// Borrowed/Owned (no-op detection), commands in order.
fn check_step<M, W>(
    kind: u8,
    script: (u8, u8, u8),
    wrap_a: fn(P<M>) -> W,
    wrap_s: fn(PState<M>) -> W::State,
    unwrap_s: fn(&W::State) -> &PState<M>,
) where
    M: AnyMsg,
    W: Actor<Msg = M, Timer = u8, Random = u8>,
{
    let p: P<M> = P::any(script.0, script.1, script.2);
    let id = Id::from(kani::any::<usize>());
    let src = Id::from(kani::any::<usize>());
    let s0: PState<M> = any_state();
    let msg = M::any_msg();
    let t: u8 = kani::any();
    let w = wrap_a(p.clone());
    let mut od: Out<P<M>> = Out::new();
    let mut ow: Out<W> = Out::new();
    let ws0 = wrap_s(s0.clone());
    let mut cd = Cow::Borrowed(&s0);
    let mut cw = Cow::Borrowed(&ws0);
    match kind {
        1 => {
            p.on_msg(id, &mut cd, src, msg.clone(), &mut od);
            w.on_msg(id, &mut cw, src, msg, &mut ow);
        }
        2 => {
            p.on_timeout(id, &mut cd, &t, &mut od);
            w.on_timeout(id, &mut cw, &t, &mut ow);
        }
        _ => {
            p.on_random(id, &mut cd, &t, &mut od);
            w.on_random(id, &mut cw, &t, &mut ow);
        }
    }
    let owned_d = matches!(cd, Cow::Owned(_));
    let owned_w = matches!(cw, Cow::Owned(_));
    match kind {
        1 => {
            assert!(owned_d == owned_w, "C15 on_msg: state written exactly when the wrapped actor writes it");
            assert!(unwrap_s(&cw) == &*cd, "C15 on_msg: same arguments seen and same resulting state");
            assert!(out_eq(&od, &ow), "C15 on_msg: same commands in the same order");
        }
        2 => {
            assert!(owned_d == owned_w, "C15 on_timeout: state written exactly when the wrapped actor writes it");
            assert!(unwrap_s(&cw) == &*cd, "C15 on_timeout: same arguments seen and same resulting state");
            assert!(out_eq(&od, &ow), "C15 on_timeout: same commands in the same order");
        }
        _ => {
            assert!(owned_d == owned_w, "C15 on_random: state written exactly when the wrapped actor writes it");
            assert!(unwrap_s(&cw) == &*cd, "C15 on_random: same arguments seen and same resulting state");
            assert!(out_eq(&od, &ow), "C15 on_random: same commands in the same order");
        }
    }
    kani::cover!(owned_d, "wrapped actor changed its state");
    kani::cover!(script.0 != 0 || (!owned_d && od.len() == 0), "wrapped actor did nothing (no-op)");
    kani::cover!(script.0 != 2 || od.len() == 2, "two commands emitted");
}

/// All script shapes exercised per (adapter, event): none, and ordered pairs that mix every
/// command kind with a different neighbour (so reordering, dropping or duplicating a command is
/// visible).
const SCRIPTS: [(u8, u8, u8); 5] = [(0, 0, 0), (2, 0, 1), (2, 2, 0), (2, 3, 2), (2, 1, 3)];

fn check_start_scripts<M, W>(part: u8, wrap_a: fn(P<M>) -> W, unwrap_s: fn(&W::State) -> &PState<M>)
where
    M: AnyMsg,
    W: Actor<Msg = M, Timer = u8, Random = u8>,
{
    // part 0 (quick tier): no commands, Send+SetTimer, ChooseRandom+CancelTimer; part 1 (thorough): the other two orders
    if part == 0 {
        check_start::<M, W>(SCRIPTS[0], wrap_a, unwrap_s);
        check_start::<M, W>(SCRIPTS[1], wrap_a, unwrap_s);
        check_start::<M, W>(SCRIPTS[3], wrap_a, unwrap_s);
    } else {
        check_start::<M, W>(SCRIPTS[2], wrap_a, unwrap_s);
        check_start::<M, W>(SCRIPTS[4], wrap_a, unwrap_s);
    }
}

fn check_event_scripts<M, W>(
    part: u8,
    kind: u8,
    wrap_a: fn(P<M>) -> W,
    wrap_s: fn(PState<M>) -> W::State,
    unwrap_s: fn(&W::State) -> &PState<M>,
) where
    M: AnyMsg,
    W: Actor<Msg = M, Timer = u8, Random = u8>,
{
    if part == 0 {
        check_step::<M, W>(kind, SCRIPTS[0], wrap_a, wrap_s, unwrap_s);
        check_step::<M, W>(kind, SCRIPTS[1], wrap_a, wrap_s, unwrap_s);
        check_step::<M, W>(kind, SCRIPTS[3], wrap_a, wrap_s, unwrap_s);
    } else {
        check_step::<M, W>(kind, SCRIPTS[2], wrap_a, wrap_s, unwrap_s);
        check_step::<M, W>(kind, SCRIPTS[4], wrap_a, wrap_s, unwrap_s);
    }
}

fn check_name<M: AnyMsg, W: Actor>(wrap_a: fn(P<M>) -> W) {
    let p: P<M> = P::any(0, 0, 0);
    let w = wrap_a(p);
    let n = w.name();
    assert!(n.len() == 1 && n.as_bytes()[0] == b'p', "C15 name is forwarded");
}

// ---- adapters ---------------------------------------------------------------------------------

type CN<M> = Choice<P<M>, Never>;
fn cn_a<M: AnyMsg>(p: P<M>) -> CN<M> {
    Choice::new(p)
}
fn cn_s<M: AnyMsg>(s: PState<M>) -> Choice<PState<M>, Never> {
    Choice::new(s)
}
fn cn_u<M: AnyMsg>(s: &Choice<PState<M>, Never>) -> &PState<M> {
    s.get()
}

type CL<M> = Choice<P<M>, Q<M>>;
fn cl_a<M: AnyMsg>(p: P<M>) -> CL<M> {
    Choice::L(p)
}
fn cl_s<M: AnyMsg>(s: PState<M>) -> Choice<PState<M>, u8> {
    Choice::L(s)
}
fn cl_u<M: AnyMsg>(s: &Choice<PState<M>, u8>) -> &PState<M> {
    match s {
        Choice::L(s) => s,
        Choice::R(_) => panic!("adapter changed the variant of the state"),
    }
}

type CR<M> = Choice<Q<M>, P<M>>;
fn cr_a<M: AnyMsg>(p: P<M>) -> CR<M> {
    Choice::R(p)
}
fn cr_s<M: AnyMsg>(s: PState<M>) -> Choice<u8, PState<M>> {
    Choice::R(s)
}
fn cr_u<M: AnyMsg>(s: &Choice<u8, PState<M>>) -> &PState<M> {
    match s {
        Choice::R(s) => s,
        Choice::L(_) => panic!("adapter changed the variant of the state"),
    }
}

type C3<M> = Choice<Q<M>, Choice<Q<M>, Choice<P<M>, Never>>>;
type C3S<M> = Choice<u8, Choice<u8, Choice<PState<M>, Never>>>;
fn c3_a<M: AnyMsg>(p: P<M>) -> C3<M> {
    Choice::new(p).or().or()
}
fn c3_s<M: AnyMsg>(s: PState<M>) -> C3S<M> {
    Choice::new(s).or().or()
}
fn c3_u<M: AnyMsg>(s: &C3S<M>) -> &PState<M> {
    match s {
        Choice::R(Choice::R(inner)) => inner.get(),
        _ => panic!("adapter changed the variant of the state"),
    }
}

type RM = RegisterMsg<u64, char, u8>;
fn rs_a(p: P<RM>) -> RegisterActor<P<RM>> {
    RegisterActor::Server(p)
}
fn rs_s(s: PState<RM>) -> RegisterActorState<PState<RM>, u64> {
    RegisterActorState::Server(s)
}
fn rs_u(s: &RegisterActorState<PState<RM>, u64>) -> &PState<RM> {
    match s {
        RegisterActorState::Server(s) => s,
        _ => panic!("adapter changed the variant of the state"),
    }
}

type WM = WORegisterMsg<u64, char, u8>;
fn ws_a(p: P<WM>) -> WORegisterActor<P<WM>> {
    WORegisterActor::Server(p)
}
fn ws_s(s: PState<WM>) -> WORegisterActorState<PState<WM>, u64> {
    WORegisterActorState::Server(s)
}
fn ws_u(s: &WORegisterActorState<PState<WM>, u64>) -> &PState<WM> {
    match s {
        WORegisterActorState::Server(s) => s,
        _ => panic!("adapter changed the variant of the state"),
    }
}

macro_rules! adapter_harnesses {
    ($start:ident, $msg:ident, $timeout:ident, $random:ident, $name:ident, $tstart:ident, $tmsg:ident, $ttimeout:ident, $trandom:ident, $m:ty, $w:ty, $a:expr, $s:expr, $u:expr) => {
        #[kani::proof]
        #[kani::unwind(4)]
        fn $start() {
            check_start_scripts::<$m, $w>(0, $a, $u);
        }
        #[kani::proof]
        #[kani::unwind(4)]
        fn $msg() {
            check_event_scripts::<$m, $w>(0, 1, $a, $s, $u);
        }
        #[kani::proof]
        #[kani::unwind(4)]
        fn $timeout() {
            check_event_scripts::<$m, $w>(0, 2, $a, $s, $u);
        }
        #[kani::proof]
        #[kani::unwind(4)]
        fn $random() {
            check_event_scripts::<$m, $w>(0, 3, $a, $s, $u);
        }
        #[kani::proof]
        #[kani::unwind(4)]
        fn $name() {
            check_name::<$m, $w>($a);
        }
        #[kani::proof]
        #[kani::unwind(4)]
        fn $tstart() {
            check_start_scripts::<$m, $w>(1, $a, $u);
        }
        #[kani::proof]
        #[kani::unwind(4)]
        fn $tmsg() {
            check_event_scripts::<$m, $w>(1, 1, $a, $s, $u);
        }
        #[kani::proof]
        #[kani::unwind(4)]
        fn $ttimeout() {
            check_event_scripts::<$m, $w>(1, 2, $a, $s, $u);
        }
        #[kani::proof]
        #[kani::unwind(4)]
        fn $trandom() {
            check_event_scripts::<$m, $w>(1, 3, $a, $s, $u);
        }
    };
}

adapter_harnesses!(c15_choice_never_start, c15_choice_never_msg, c15_choice_never_timeout, c15_choice_never_random, c15_choice_never_name, c15_t_choice_never_start, c15_t_choice_never_msg, c15_t_choice_never_timeout, c15_t_choice_never_random, u8, CN<u8>, cn_a, cn_s, cn_u);
adapter_harnesses!(c15_choice_l_start, c15_choice_l_msg, c15_choice_l_timeout, c15_choice_l_random, c15_choice_l_name, c15_t_choice_l_start, c15_t_choice_l_msg, c15_t_choice_l_timeout, c15_t_choice_l_random, u8, CL<u8>, cl_a, cl_s, cl_u);
adapter_harnesses!(c15_choice_r_start, c15_choice_r_msg, c15_choice_r_timeout, c15_choice_r_random, c15_choice_r_name, c15_t_choice_r_start, c15_t_choice_r_msg, c15_t_choice_r_timeout, c15_t_choice_r_random, u8, CR<u8>, cr_a, cr_s, cr_u);
adapter_harnesses!(c15_choice_3_start, c15_choice_3_msg, c15_choice_3_timeout, c15_choice_3_random, c15_choice_3_name, c15_t_choice_3_start, c15_t_choice_3_msg, c15_t_choice_3_timeout, c15_t_choice_3_random, u8, C3<u8>, c3_a, c3_s, c3_u);
adapter_harnesses!(c15_register_server_start, c15_register_server_msg, c15_register_server_timeout, c15_register_server_random, c15_register_server_name, c15_t_register_server_start, c15_t_register_server_msg, c15_t_register_server_timeout, c15_t_register_server_random, RM, RegisterActor<P<RM>>, rs_a, rs_s, rs_u);
adapter_harnesses!(c15_woregister_server_start, c15_woregister_server_msg, c15_woregister_server_timeout, c15_woregister_server_random, c15_woregister_server_name, c15_t_woregister_server_start, c15_t_woregister_server_msg, c15_t_woregister_server_timeout, c15_t_woregister_server_random, WM, WORegisterActor<P<WM>>, ws_a, ws_s, ws_u);

// ---- scripted client ---------------------------------------------------------------------------

fn script_n<const N: usize>(d: [usize; 3], m: [u8; 3]) -> Vec<(Id, u8)> {
    match N {
        0 => vec![],
        1 => vec![(Id::from(d[0]), m[0])],
        2 => vec![(Id::from(d[0]), m[0]), (Id::from(d[1]), m[1])],
        _ => vec![(Id::from(d[0]), m[0]), (Id::from(d[1]), m[1]), (Id::from(d[2]), m[2])],
    }
}

fn is_send(c: &Command<u8, (), ()>, dst: usize, msg: u8) -> bool {
    match c {
        Command::Send(d, m) => *d == Id::from(dst) && *m == msg,
        _ => false,
    }
}

/// The scripted `Vec<(Id, Msg)>` client sends exactly its script: entry 0 on start, then one
/// entry per received message, in order, nothing after the end (and then it is a no-op).
fn scripted<const N: usize>() {
    let d: [usize; 3] = kani::any();
    let m: [u8; 3] = kani::any();
    let script = script_n::<N>(d, m);
    let id = Id::from(kani::any::<usize>());
    let mut o: Out<Vec<(Id, u8)>> = Out::new();
    let s = script.on_start(id, &mut o);
    if N == 0 {
        assert!(s == 0 && o.len() == 0, "C15 empty script sends nothing on start");
    } else {
        assert!(s == 1 && o.len() == 1 && is_send(&o[0], d[0], m[0]), "C15 scripted client sends entry 0 on start");
    }
    // one inductive step from any position
    let k: usize = kani::any();
    kani::assume(k <= N + 1);
    let src = Id::from(kani::any::<usize>());
    let incoming: u8 = kani::any();
    let mut c = Cow::Borrowed(&k);
    let mut o2: Out<Vec<(Id, u8)>> = Out::new();
    script.on_msg(id, &mut c, src, incoming, &mut o2);
    if k < N {
        assert!(o2.len() == 1 && is_send(&o2[0], d[k], m[k]), "C15 scripted client sends exactly the next entry");
        assert!(*c == k + 1, "C15 scripted client advances by one");
    } else {
        assert!(o2.len() == 0, "C15 scripted client sends nothing after the end");
        assert!(matches!(c, Cow::Borrowed(_)) && *c == k, "C15 scripted client is a no-op after the end");
    }
    kani::cover!(k < N || N == 0, "mid-script step");
}

#[kani::proof]
#[kani::unwind(5)]
fn c15_scripted_client() {
    scripted::<0>();
    scripted::<1>();
    scripted::<2>();
    scripted::<3>();
}

/// Vacuity twin: the adapter comparison must be able to fail.
#[kani::proof]
#[kani::unwind(4)]
fn c15_twin_must_fail() {
    let p: P<u8> = P::any(2, 0, 1);
    let w = cn_a(p.clone());
    let id = Id::from(kani::any::<usize>());
    let mut od: Out<P<u8>> = Out::new();
    let mut ow: Out<CN<u8>> = Out::new();
    let _ = p.on_start(id, &mut od);
    let _ = w.on_start(id, &mut ow);
    assert!(out_eq(&od, &ow) && od.len() == 0, "TWIN probe never emits commands (false)");
}
