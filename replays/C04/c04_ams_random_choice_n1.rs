// replay for property C04, harness c04::c04_ams_random_choice_n1
// inject into harness module c04.rs of the scratch copy and run `cargo kani playback -Z concrete-playback`
/// Test generated for harness `verif_harness::c04::c04_ams_random_choice_n1` 
///
/// Check for `assertion`: ""C04 states differing only in a pending random choice are different states (==)""

#[test]
fn kani_concrete_playback_c04_ams_random_choice_n1_8535526424517716344() {
    let concrete_vals: Vec<Vec<u8>> = vec![
        // 255
        vec![255],
        // 255
        vec![255],
        // 255
        vec![255],
    ];
    kani::concrete_playback_run(concrete_vals, c04_ams_random_choice_n1);
}
