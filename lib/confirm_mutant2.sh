#!/bin/bash
# usage: confirm_mutant2.sh <mutant-dir with target.txt> <seeded-id>
M=$1; ID=$2
TARGET=$(sed -n 1p $M/target.txt | tr -d '\r' | xargs); FILTER=$(sed -n 2p $M/target.txt | tr -d '\r' | xargs)
exec /verif/lib/confirm_mutant.sh $M "$TARGET" "$FILTER" $ID
