// replay for property C04, harness c04::c04_hashset_adjacent
// inject into harness module c04.rs of the scratch copy and run `cargo kani playback -Z concrete-playback`
/// Test generated for harness `verif_harness::c04::c04_hashset_adjacent` 
///
/// Check for `assertion`: ""C04 adjacent hashable sets that hold an element in different places feed different byte streams""

#[test]
fn kani_concrete_playback_c04_hashset_adjacent_18101485584397303300() {
    let concrete_vals: Vec<Vec<u8>> = vec![
        // 243
        vec![243],
        // 255
        vec![255],
        // 255
        vec![255],
        // 255
        vec![255],
        // 255
        vec![255],
        // 255
        vec![255],
        // 243
        vec![243],
        // 255
        vec![255],
    ];
    kani::concrete_playback_run(concrete_vals, c04_hashset_adjacent);
}

/// Test generated for harness `verif_harness::c04::c04_hashset_adjacent` 
///
/// Check for `cover`: "unequal pairs"

#[test]
fn kani_concrete_playback_c04_hashset_adjacent_14741692259537360483() {
    let concrete_vals: Vec<Vec<u8>> = vec![
        // 0
        vec![0],
        // 0
        vec![0],
        // 0
        vec![0],
        // 0
        vec![0],
        // 0
        vec![0],
        // 0
        vec![0],
        // 128
        vec![128],
        // 0
        vec![0],
    ];
    kani::concrete_playback_run(concrete_vals, c04_hashset_adjacent);
}
