//! C17 — `Id` <-> IPv4 socket address conversion is a bijection on 48-bit ids.
//! Functions encoded: `impl From<Id> for SocketAddrV4`, `impl From<SocketAddrV4> for Id`
//! (src/actor/spawn.rs).  Loop-free bit-vector code over the full input space.
use crate::actor::Id;
use std::net::{Ipv4Addr, SocketAddrV4};

/// For every 48-bit id: id -> addr -> id is the identity, and the address has exactly the bytes
/// of the id (big endian: 4 address octets, then 2 port bytes).
#[kani::proof]
fn c17_id_addr_id() {
    let x: u64 = kani::any();
    kani::assume(x < (1u64 << 48));
    let id = Id::from(x as usize);
    let addr = SocketAddrV4::from(id);
    let back = Id::from(addr);
    assert!(back == id, "C17 Id -> SocketAddrV4 -> Id is the identity on 48-bit ids");
    let b = x.to_be_bytes();
    assert!(addr.ip().octets() == [b[2], b[3], b[4], b[5]], "C17 address octets are bytes 2..6 of the id");
    assert!(addr.port() == u16::from_be_bytes([b[6], b[7]]), "C17 port is the low 16 bits of the id");
    kani::cover!(x > (1u64 << 40), "large id");
}

/// For every IPv4 socket address: addr -> id -> addr is the identity and the id is below 2^48.
#[kani::proof]
fn c17_addr_id_addr() {
    let o: [u8; 4] = kani::any();
    let port: u16 = kani::any();
    let addr = SocketAddrV4::new(Ipv4Addr::new(o[0], o[1], o[2], o[3]), port);
    let id = Id::from(addr);
    let back = SocketAddrV4::from(id);
    assert!(back.ip().octets() == o && back.port() == port, "C17 SocketAddrV4 -> Id -> SocketAddrV4 is the identity");
    assert!(usize::from(id) < (1usize << 48), "C17 ids derived from addresses are 48-bit");
    kani::cover!(port > 1000 && o[0] == 127, "loopback high port");
}

/// Injectivity in both directions (distinct ids below 2^48 give distinct addresses and vice
/// versa); ids that differ only in the top 16 bits map to the same address, which is why the
/// bijection is stated on 48-bit ids.
#[kani::proof]
fn c17_injective() {
    let x: u64 = kani::any();
    let y: u64 = kani::any();
    let ax = SocketAddrV4::from(Id::from(x as usize));
    let ay = SocketAddrV4::from(Id::from(y as usize));
    let same_addr = ax.ip().octets() == ay.ip().octets() && ax.port() == ay.port();
    let mask = (1u64 << 48) - 1;
    assert!(same_addr == ((x & mask) == (y & mask)), "C17 addresses equal exactly when the low 48 bits agree");
    kani::cover!(same_addr && x != y, "ids differing only above bit 48");
}

/// Vacuity twin.
#[kani::proof]
fn c17_twin_must_fail() {
    let x: u64 = kani::any();
    let id = Id::from(x as usize);
    let back = Id::from(SocketAddrV4::from(id));
    assert!(back == id, "TWIN round trip holds for all 64-bit ids (false)");
}

// ---- timer bookkeeping of the UDP runtime (`on_command`) ------------------------------------------
//
// `on_command` and `Interrupt` are private to spawn.rs; the scratch copy makes them pub(crate)
// (overlay transform, visibility only).  `Instant::now()` is stubbed by a symbolic clock and the
// `HashMap` of pending interrupts is the Vec-backed model.  Timer ranges are degenerate
// (start == end) so that the runtime's random jitter (`rand::thread_rng`) is not reached; no
// `Send` command is executed, so the socket is never used.
use super::coll::HashMap;
use crate::actor::spawn::{on_command, Interrupt};
use crate::actor::{Actor, Command, Out};
use std::net::UdpSocket;
use std::time::{Duration, Instant};

pub struct TA17;
impl Actor for TA17 {
    type Msg = u8;
    type State = u8;
    type Timer = u8;
    type Random = u8;
    fn on_start(&self, _id: Id, _o: &mut Out<Self>) -> u8 {
        0
    }
}

use std::panic::catch_unwind as real_catch_unwind;
/// `rand::thread_rng()` (statically reachable from the SetTimer arm, never executed here) pulls in a
/// thread-local destructor whose `catch_unwind` intrinsic Kani 0.68 cannot compile; under Kani's
/// panic=abort semantics `catch_unwind(f)` is exactly `Ok(f())`.
fn catch_unwind_stub<F: FnOnce() -> R + std::panic::UnwindSafe, R>(f: F) -> std::thread::Result<R> {
    Ok(f())
}

#[repr(C)]
struct RawInstant {
    secs: i64,
    nanos: u32,
}
static mut NOW_SECS: i64 = 0;
/// Stub for `Instant::now()`: a symbolic, non-decreasing clock.
fn symbolic_now() -> Instant {
    let step: i64 = kani::any();
    kani::assume(step >= 0 && step < 1_000_000);
    unsafe {
        NOW_SECS += step;
        std::mem::transmute::<RawInstant, Instant>(RawInstant { secs: 1_000_000 + NOW_SECS, nanos: 0 })
    }
}
fn ser(_m: &u8) -> Result<Vec<u8>, ()> {
    Ok(Vec::new())
}
fn fake_socket() -> std::mem::ManuallyDrop<UdpSocket> {
    use std::os::fd::FromRawFd;
    // never used (no Send command) and never dropped (no close syscall)
    std::mem::ManuallyDrop::new(unsafe { UdpSocket::from_raw_fd(3) })
}
fn deadline(m: &HashMap<Interrupt<u8, u8>, Instant>, t: u8) -> Option<Instant> {
    m.get(&Interrupt::Timeout(t)).copied()
}

/// A timer is armed with the lower bound of the range given at its LATEST arming, and a cancelled
/// timer is no longer due: after SetTimer(t, d1) [SetTimer(t, d2)] the deadline of t is the time of
/// the latest arming plus its duration (never the older, earlier one); after CancelTimer(t) the
/// timer is not due for at least 400 years; other timers are untouched.
#[kani::proof]
#[kani::unwind(5)]
#[kani::stub(std::time::Instant::now, symbolic_now)]
#[kani::stub(real_catch_unwind, catch_unwind_stub)]
fn c17_timer_arming() {
    assert!(std::mem::size_of::<RawInstant>() == std::mem::size_of::<Instant>());
    let addr = SocketAddrV4::new(Ipv4Addr::new(127, 0, 0, 1), 3000);
    let sock = fake_socket();
    let mut m: HashMap<Interrupt<u8, u8>, Instant> = HashMap::new();
    let (t, other): (u8, u8) = (kani::any(), kani::any());
    kani::assume(t != other);
    let d0 = Duration::from_secs(kani::any::<u16>() as u64);
    let d1 = Duration::from_secs(kani::any::<u16>() as u64);
    let d2 = Duration::from_secs(kani::any::<u16>() as u64);
    on_command::<TA17, ()>(addr, Command::SetTimer(other, d0..d0), ser, &sock, &mut m);
    let other_deadline = deadline(&m, other).expect("C17 a set timer is pending");
    let before1 = Instant::now(); // stubbed by the symbolic clock under Kani, the real clock in native replay
    on_command::<TA17, ()>(addr, Command::SetTimer(t, d1..d1), ser, &sock, &mut m);
    let dl1 = deadline(&m, t).expect("C17 a set timer is pending");
    assert!(dl1 >= before1 + d1, "C17 a timer fires no earlier than the lower bound of its range after arming");
    let rearm: bool = kani::any();
    if rearm {
        let before2 = Instant::now();
        on_command::<TA17, ()>(addr, Command::SetTimer(t, d2..d2), ser, &sock, &mut m);
        let dl2 = deadline(&m, t).expect("C17 a re-armed timer is pending");
        assert!(dl2 >= before2 + d2, "C17 a re-armed timer fires no earlier than the lower bound given at its LATEST arming");
        assert!(m.len() == 2, "C17 re-arming does not create a second entry");
    }
    assert!(deadline(&m, other) == Some(other_deadline), "C17 arming one timer leaves the others untouched");
    let cancel: bool = kani::any();
    if cancel {
        let now = Instant::now();
        on_command::<TA17, ()>(addr, Command::CancelTimer(t), ser, &sock, &mut m);
        let due_soon = match deadline(&m, t) {
            None => false,
            Some(dl) => dl < now + Duration::from_secs(3600 * 24 * 365 * 400),
        };
        assert!(!due_soon, "C17 a cancelled timer does not fire");
        assert!(deadline(&m, other) == Some(other_deadline), "C17 cancelling one timer leaves the others untouched");
        // cancelling a timer that was never set arms nothing
        let never: u8 = kani::any();
        kani::assume(never != t && never != other);
        on_command::<TA17, ()>(addr, Command::CancelTimer(never), ser, &sock, &mut m);
        assert!(deadline(&m, never).is_none(), "C17 cancelling an unset timer arms nothing");
    }
    kani::cover!(rearm && d2 > d1, "re-armed with a later deadline");
    kani::cover!(rearm && d2 < d1, "re-armed with an earlier deadline");
    kani::cover!(cancel, "cancelled");
    std::mem::forget(m);
}
