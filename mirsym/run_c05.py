import sys, time, z3
from jobmarket import BrokerModel
from bmc import *

def bmc(proto, K, timeout_ms=600000):
    T=proto.T
    res={}
    sol=z3.Solver(); sol.set('timeout',timeout_ms)
    P0=z3.Int('P0')
    states=[SysState(0,T)]
    sol.add(proto.init(states[0],P0))
    whos=[]
    t0=time.time()
    bad_any=[]
    for k in range(K+1):
        s=states[k]
        for name,f in (('deadlock',proto.deadlock(s)),('lost',proto.lost_or_duplicated(s,P0)),('after_close',proto.handed_out_after_close(s))):
            sol.push(); sol.add(f); r=sol.check(); 
            if r==z3.sat:
                m=sol.model(); sol.pop(); return {'verdict':'violation','prop':name,'step':k,'model':m,'states':states[:k+1],'whos':whos,'P0':P0,'time':time.time()-t0}
            if r==z3.unknown:
                sol.pop(); return {'verdict':'unknown','prop':name,'step':k,'time':time.time()-t0}
            sol.pop()
        if k<K:
            t=SysState(k+1,T)
            f,who=proto.step(s,t,k)
            sol.add(f); states.append(t); whos.append(who)
    return {'verdict':'holds','K':K,'time':time.time()-t0,'queries':3*(K+1)}

def inductive(proto, timeout_ms=600000):
    T=proto.T
    sol=z3.Solver(); sol.set('timeout',timeout_ms)
    s=SysState('a',T); t=SysState('b',T)
    f,who=proto.step(s,t,'i')
    sol.add(proto.inv(s), f, z3.Not(proto.inv(t)))
    r=sol.check()
    if r==z3.sat: return {'verdict':'not inductive','model':sol.model(),'s':s,'t':t,'who':who}
    return {'verdict':str(r)}

if __name__=='__main__':
    txt=open(sys.argv[1]).read()
    T=int(sys.argv[2]); K=int(sys.argv[3])
    bm=BrokerModel(txt)
    proto=Protocol(bm,T)
    print('summaries',proto.n_summaries, 'init', proto.init_mk.open, proto.init_mk.oc)
    r=bmc(proto,K)
    print({k:v for k,v in r.items() if k not in ('model','states','whos','P0')})
    if r['verdict']=='violation':
        m=r['model']
        for k,s in enumerate(r['states']):
            print(k, 'open',m.eval(s.mk.open), 'oc',m.eval(s.mk.oc),'n',m.eval(s.mk.n),'pcs',[m.eval(x) for x in s.pc],'L',[m.eval(x) for x in s.L],'nt',[m.eval(x) for x in s.notif], 'stop', m.eval(s.stop_req), 'who', m.eval(r['whos'][k]) if k < len(r['whos']) else '-')
    ri=inductive(proto)
    print('inductive:',ri['verdict'])
    if ri['verdict']=='not inductive':
        m=ri['model']
        for nm,s in (('pre',ri['s']),('post',ri['t'])):
            print(nm,'open',m.eval(s.mk.open), 'oc',m.eval(s.mk.oc),'n',m.eval(s.mk.n),'tc',m.eval(s.mk.tc),'pcs',[m.eval(x) for x in s.pc],'L',[m.eval(x) for x in s.L],'nt',[m.eval(x) for x in s.notif],'slots',[m.eval(x) for x in s.mk.slots])
        print('who',m.eval(ri['who']))
