"""Segment summaries of `JobBroker` (from MIR) and the bounded model checker over worker schedules.

The broker methods are executed symbolically from an arbitrary market state; every path yields a
summary (guard, post-state, events, how the segment ends).  The BMC composes the summaries with a
client automaton that uses the broker exactly like the worker closures in bfs.rs/dfs.rs/
on_demand.rs do, and lets z3 choose the schedule, the block outcomes and the stop reasons.
"""
import re
import z3

from mir import parse_body, split_functions, Unsupported
from symex import Executor, State, I, B, UNIT

CAP = 4  # model capacity of job_batches (a `bound` outcome is reported if it can be exceeded)


class Market:
    """z3 variables (or terms) describing the shared market."""

    def __init__(self, open_, tc, oc, n, slots):
        self.open, self.tc, self.oc, self.n, self.slots = open_, tc, oc, n, list(slots)

    @staticmethod
    def fresh(tag):
        return Market(z3.Bool(f"open{tag}"), z3.Int(f"tc{tag}"), z3.Int(f"oc{tag}"), z3.Int(f"n{tag}"), [z3.Int(f"slot{i}{tag}") for i in range(CAP)])

    def domain(self, tmax, lmax):
        c = [self.tc >= 1, self.tc <= tmax, self.oc >= 0, self.oc <= tmax + 1, self.n >= 0, self.n <= CAP]
        for s in self.slots:
            c += [s >= 0, s <= lmax]
        return c

    def total(self):
        t = z3.IntVal(0)
        for i, s in enumerate(self.slots):
            t = t + z3.If(self.n > i, s, 0)
        return t

    def vars(self):
        return [self.open, self.tc, self.oc, self.n] + self.slots


class Summary:
    def __init__(self, method, entry, kind, guard, post, events, ret_len, local_post, discarded, resume, info):
        self.method, self.entry, self.kind = method, entry, kind
        self.guard, self.post, self.events = guard, post, events
        self.ret_len, self.local_post, self.discarded = ret_len, local_post, discarded
        self.resume, self.info = resume, info

    def describe(self):
        ev = ",".join(e[0] + ("!" if len(e) > 1 and e[1] else "") for e in self.events)
        return f"{self.method}@{self.entry}: {self.kind} [{ev}] guard={z3.simplify(self.guard)}"


class BrokerModel:
    def __init__(self, mir_text, tmax=3, lmax=6):
        self.bodies = {}
        self.mir_by_name = {}
        for f in split_functions(mir_text):
            if not f.startswith("fn job_market::"):
                continue
            b = parse_body(f)
            short = b.name.split(">::")[-1]
            self.bodies[short] = b
            self.mir_by_name[short] = f
        for need in ("pop", "push", "split_and_push", "drop", "new", "new::{closure#0}", "is_closed", "clone"):
            if need not in self.bodies:
                raise Unsupported(f"job_market::{need} not found in the MIR dump")
        self.tmax, self.lmax = tmax, lmax
        self.ex = Executor(self.bodies)
        self.ex.cap = CAP

    # ---- heap set-up --------------------------------------------------------------------------
    def setup(self, mk, local_len=None, closing_time=None, as_closure=False):
        st = State()
        vec = st.alloc(("vec", mk.n, tuple(mk.slots)))
        market = st.alloc(("struct", ((0, st.alloc(B(mk.open))), (1, st.alloc(I(mk.tc))), (2, st.alloc(I(mk.oc))), (3, vec))))
        mutex = st.alloc(("mutex", market))
        condvar = st.alloc(("condvar",))
        broker = st.alloc(("struct", ((0, st.alloc(("arc", condvar))), (1, st.alloc(("arc", mutex))))))
        if as_closure:
            env = st.alloc(("struct", ((0, broker), (1, st.alloc(I(closing_time)))), "{closure@timeout}", ("s1", "closing_time")))
            st.locals[1] = env
        else:
            st.locals[1] = st.alloc(("ref", broker))
        lq = None
        if local_len is not None:
            lq = st.alloc(("deque", local_len))
        st.handles = dict(market=market, mutex=mutex, lq=lq, vec=vec)
        self._h = st.handles
        return st

    def read_market(self, st):
        m = dict(st.heap[st.handles["market"]][1])
        v = st.heap[m[3]]
        return Market(st.heap[m[0]][1], st.heap[m[1]][1], st.heap[m[2]][1], v[1], v[2])

    def _summaries(self, method, entry, outs):
        res = []
        for o in outs:
            st = o.st
            guard = z3.And(*st.pc) if st.pc else z3.BoolVal(True)
            post = self.read_market(st)
            ret_len = None
            if o.kind == "return":
                rv = o.info.get("ret")
                if rv is not None and rv[0] == "deque":
                    ret_len = rv[1]
                elif rv is not None and rv[0] == "bool":
                    ret_len = rv[1]
            local_post = st.heap[st.handles["lq"]][1] if st.handles.get("lq") is not None else None
            sm = Summary(method, entry, o.kind, guard, post, list(st.events), ret_len, local_post, st.discarded, o.info.get("resume"), o.info)
            sm.suspended = st if o.kind in ("wait", "sleep") else None
            res.append(sm)
        return res

    def summarize(self, method, mk, local_len=None, entry_bb=0, resume=False, closing_time=None):
        body = self.bodies[method]
        self.ex.base_constraints = mk.domain(self.tmax, self.lmax) + ([local_len >= 0, local_len <= self.lmax] if local_len is not None else [])
        st = self.setup(mk, local_len, closing_time, as_closure=(method == "new::{closure#0}"))
        if method == "push":
            st.locals[2] = self._h["lq"]
        if method == "split_and_push":
            st.locals[2] = st.alloc(("ref", self._h["lq"]))
        if resume:
            # continuation of `pop` after Condvar::wait: the guard (local 2) is live again
            st.locals[2] = st.alloc(("guard", self._h["mutex"]))
            st.lock_held = 1
            st.events.append(("wake",))
        outs = self.ex.run(body, st, entry_bb)
        return self._summaries(method, f"bb{entry_bb}", outs)

    def summarize_resume(self, wait_summary, mk):
        """Continuation of a segment that ended in Condvar::wait: the suspended state (all frames and
        locals) is resumed on a FRESH symbolic market; values that would have to survive the wait in
        locals are not supported (the summaries must only mention the new market)."""
        st = wait_summary.suspended.clone()
        self.ex.base_constraints = mk.domain(self.tmax, self.lmax)
        m = dict(st.heap[st.handles["market"]][1])
        st.heap[m[0]] = B(mk.open)
        st.heap[m[1]] = I(mk.tc)
        st.heap[m[2]] = I(mk.oc)
        st.heap[m[3]] = ("vec", mk.n, tuple(mk.slots))
        st.pc, st.events, st.discarded, st.steps = [], [("wake",)], z3.IntVal(0), 0
        body = self.bodies[wait_summary.info.get("resume_body") or wait_summary.method]
        outs = self.ex.run(body, st, wait_summary.resume)
        sums = self._summaries(wait_summary.method, f"resume@{wait_summary.info.get('resume_body')}:bb{wait_summary.resume}", outs)
        allowed = {str(v) for v in mk.vars()}
        for sm in sums:
            for e in [sm.guard, sm.post.open, sm.post.oc, sm.post.n, sm.post.tc] + list(sm.post.slots) + ([sm.ret_len] if isinstance(sm.ret_len, z3.ExprRef) else []):
                for v in z3.z3util.get_vars(e):
                    if str(v) not in allowed and not str(v).startswith("now!"):
                        raise Unsupported(f"a value computed before Condvar::wait is still live after it ({v}); not supported by the segment model")
        return sums

    def initial_market(self, thread_count):
        """Executes `JobBroker::new(thread_count, None)` and reads the market it builds."""
        body = self.bodies["new"]
        st = State()
        st.locals[1] = st.alloc(I(thread_count))
        st.locals[2] = st.alloc(("opt", z3.BoolVal(False), st.alloc(("uninit",))))
        self.ex.base_constraints = []
        outs = self.ex.run(body, st, 0)
        rets = [o for o in outs if o.kind == "return"]
        if len(rets) != 1:
            raise Unsupported(f"JobBroker::new(_, None): expected one returning path, got {[o.kind for o in outs]}")
        st = rets[0].st
        broker = rets[0].info["ret"]
        arc_mutex = st.heap[dict(broker[1])[1]]
        mutex = st.heap[arc_mutex[1]]
        m = dict(st.heap[mutex[1]][1])
        v = st.heap[m[3]]
        return Market(st.heap[m[0]][1], st.heap[m[1]][1], st.heap[m[2]][1], v[1], v[2])

    def spawns_timeout_thread(self):
        """`new` with `Some(closing_time)` must hand closure#0 to a spawned thread."""
        txt = self.mir_by_name["new"]
        return bool(re.search(r"Builder::spawn::<\{closure@src/job_market\.rs", txt)) or "spawn" in txt
