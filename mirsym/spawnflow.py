"""How `spawn()` of bfs.rs / dfs.rs wires the builder's options into the workers, from its MIR.

`spawn(options: CheckerBuilder<M>)` is executed with every callee arbitrary and its loops havocked
(blockloop.BlockExecutor); the fields of `options` are distinct opaque values.  At every
`Builder::spawn::<{worker closure}>` call the closure environment must carry, unchanged,
`options.target_max_depth` and `options.target_state_count` (field indices are read from the
declaration order of `struct CheckerBuilder` in src/checker.rs), and `JobBroker::new` must be
given `options.thread_count`.  A value that went through any computation (e.g.
`options.target_max_depth.and_then(..)`) is a different value and is reported.
"""
import re
import z3

from mir import parse_body, split_functions, Unsupported
from symex import Executor, State
from blockloop import BlockExecutor, _natural_loop, _assigned
from workerloop import loop_heads, _check


def builder_fields(checker_rs):
    m = re.search(r"pub struct CheckerBuilder<[^>]*>\s*\{(.*?)\n\}", checker_rs, re.S)
    if not m:
        raise Unsupported("struct CheckerBuilder not found in src/checker.rs")
    names = []
    for line in m.group(1).splitlines():
        line = line.strip()
        mm = re.match(r"^(?:pub(?:\([a-z]+\))? )?(\w+)\s*:", line)
        if mm and not line.startswith(("//", "#")):
            names.append(mm.group(1))
    return names


class SpawnExecutor(BlockExecutor):
    def eval_rv(self, st, rv):
        v = super().eval_rv(st, rv)
        if rv[0] == "agg" and isinstance(rv[1], str) and rv[1].startswith("{closure@") and v[0] == "struct":
            st.events.append(("closure_built", rv[1], v, dict(st.heap)))
        return v

    def call(self, st, body, t):
        f = t.args["func"]
        mq = re.search(r"VecDeque::<.*>::(push_back|push_front)$", f)
        if mq:
            args = [self.read(st, a) for a in t.args["args"]]
            if args[1][0] == "struct":
                st.events.append(("init_push", [st.heap[c] for _, c in args[1][1]]))
            return ("opaque", "unit")
        if re.search(r"Builder::spawn::<\{closure@", f):
            args = [self.read(st, a) for a in t.args["args"]]
            st.events.append(("spawn_worker", args[-1], dict(st.heap)))
            return ("opaque", "joinhandle")
        if re.search(r"JobBroker::<.*>::new$", f):
            args = [self.read(st, a) for a in t.args["args"]]
            st.events.append(("broker_new", args[0]))
            return ("broker",)
        if re.search(r"JobBroker::<.*>::(push|clone)$|as Clone>::clone$", f):
            args = [self.read(st, a) for a in t.args["args"]]
            tgt = self._target(st, args[0])
            if f.endswith("::push"):
                st.events.append(("broker_push",))
            return ("broker",) if tgt[0] == "broker" else ("opaque", "clone")
        return super().call(st, body, t)


def obligations(name, mir_text, checker_rs):
    fields = builder_fields(checker_rs)
    need = {"target_max_depth", "target_state_count", "thread_count"}
    if not need <= set(fields):
        raise Unsupported(f"CheckerBuilder fields {sorted(need - set(fields))} not found")
    text = None
    for f in split_functions(mir_text):
        if re.match(rf"^fn (?:checker::)?{name}::<impl at src/checker/{name}\.rs[^>]*>::spawn\(", f.split("\n", 1)[0]):
            text = f
    if text is None:
        raise Unsupported(f"{name}: spawn() not found in the MIR")
    body = parse_body(text)
    ex = SpawnExecutor({Executor.short(body): body})
    ex.job_types, ex.depth_idx = [], None
    heads = sorted(h for h in loop_heads(body) if not body.blocks[h].cleanup)
    ex.loop_havoc = {h: _assigned(body, _natural_loop(body, h)) for h in heads}
    ex.stop_blocks = set()
    st = State()
    cells = []
    opt_fields = {}
    for i, fn in enumerate(fields):
        v = ("opaque", f"options.{fn}")
        cells.append((i, st.alloc(v)))
        opt_fields[fn] = v
    st.locals[body.params[0]] = st.alloc(("struct", tuple(cells)))
    outs = ex.run(body, st, 0)
    res = []
    n_spawn = 0

    def add(ob, ok, g, **kw):
        r = z3.unsat if ok else _check([], g)[0]
        res.append({"obligation": f"{name} spawn: {ob}", "result": "unsat" if r == z3.unsat else ("sat" if r == z3.sat else str(r)), **kw})

    for i, o in enumerate(outs):
        if o.kind == "panic":
            continue
        g = z3.And(*o.st.pc) if o.st.pc else z3.BoolVal(True)
        for e in o.st.events:
            if e[0] == "broker_new":
                add(f"path {i}: the job broker is created for options.thread_count workers", e[1] == opt_fields["thread_count"], g, **({} if e[1] == opt_fields["thread_count"] else {"witness": {"checker": name, "passed": str(e[1])[:80]}}))
            if e[0] == "spawn_worker":
                n_spawn += 1
                clo, heap = e[1], e[2]
                if clo[0] != "struct" or len(clo) < 4:
                    raise Unsupported("worker closure environment is not an aggregate with named captures")
                env = {nm: heap[c] for (idx, c), nm in zip(clo[1], clo[3])}
                for fn in ("target_max_depth", "target_state_count"):
                    if fn not in env:
                        continue  # not captured: nothing is handed over under that name
                    ok = env[fn] == opt_fields[fn]
                    add(f"path {i}: the worker is handed options.{fn} unchanged", ok, g, **({} if ok else {"witness": {"checker": name, "handed": str(env[fn])[:80]}}))
                if "target_max_depth" not in env:
                    add(f"path {i}: the worker is handed options.target_max_depth unchanged", False, g, witness={"checker": name, "handed": "nothing (not captured)"})
    for i, o in enumerate(outs):
        if o.kind == "panic":
            continue
        g = z3.And(*o.st.pc) if o.st.pc else z3.BoolVal(True)
        pushes = sum(1 for e in o.st.events if e[0] == "broker_push")
        spawned = any(e[0] == "spawn_worker" for e in o.st.events)
        # a path cut inside a loop that has already pushed once and pushes again, or a complete path
        # without exactly one push: the initial states do not reach the market as ONE batch
        if o.kind == "cut":
            add(f"path {i}: the initial states are pushed to the job market as one batch (no push inside a loop)", pushes <= 1, g)
        elif spawned or o.kind == "return":
            add(f"path {i}: the initial states are pushed to the job market as one batch (exactly one push)", pushes == 1, g)
    if n_spawn == 0:
        n_spawn = _via_local_closure(name, mir_text, outs, opt_fields, add)
    if n_spawn == 0:
        raise Unsupported(f"{name} spawn: no worker thread creation found on any path")
    info = {"function": body.name, "blocks": len(body.blocks), "loops_havocked": [f"bb{h}" for h in heads], "paths": len(outs), "builder_fields": fields}
    return res, info


def _via_local_closure(name, mir_text, spawn_outs, opt_fields, add):
    """The worker threads are created inside a local closure of spawn() (e.g. `(0..n).map(spawn_worker)`):
    (1) inside that closure the worker is handed the captured values unchanged, (2) spawn() builds
    the closure with references to locals that hold the options unchanged."""
    n = 0
    for f in split_functions(mir_text):
        hdr = f.split("\n", 1)[0]
        m = re.match(rf"^fn (?:checker::)?{name}::<impl at src/checker/{name}\.rs[^>]*>::spawn::(\{{closure#\d+\}})\(_1: (&(?:mut )?)?(\{{closure@[^}}]*\}})", hdr)
        if not m or "Builder::spawn::<{closure@" not in f:
            continue
        by_ref, span = bool(m.group(2)), m.group(3)
        body = parse_body(f)
        ex = SpawnExecutor({Executor.short(body): body})
        ex.job_types, ex.depth_idx = [], None
        heads = sorted(h for h in loop_heads(body) if not body.blocks[h].cleanup)
        ex.loop_havoc = {h: _assigned(body, _natural_loop(body, h)) for h in heads}
        ex.stop_blocks = set()
        st = State()
        caps = {}
        for mm in re.finditer(r"debug (\w+) => \(\*\(\(\*_1\)\.(\d+): &|debug (\w+) => \(\*\(_1\.(\d+): &|debug (\w+) => \(\(\*_1\)\.(\d+): |debug (\w+) => \(_1\.(\d+): ", f):
            g = mm.groups()
            if g[0]:
                caps[int(g[1])] = (g[0], True)
            elif g[2]:
                caps[int(g[3])] = (g[2], True)
            elif g[4]:
                caps[int(g[5])] = (g[4], False)
            else:
                caps[int(g[7])] = (g[6], False)
        if not caps:
            continue
        cells = []
        for i in range(max(caps) + 1):
            nm, isref = caps.get(i, (f"f{i}", False))
            v = ("opaque", f"cap.{nm}")
            cells.append((i, st.alloc(("ref", st.alloc(v)) if isref else v)))
        env = ("struct", tuple(cells))
        st.locals[body.params[0]] = st.alloc(("ref", st.alloc(env)) if by_ref else env)
        for p in body.params[1:]:
            st.locals[p] = st.alloc(("opaque", f"param{p}"))
        for i, o in enumerate(ex.run(body, st, 0)):
            if o.kind == "panic":
                continue
            g = z3.And(*o.st.pc) if o.st.pc else z3.BoolVal(True)
            for e in o.st.events:
                if e[0] != "spawn_worker":
                    continue
                n += 1
                clo, heap = e[1], e[2]
                if clo[0] != "struct" or len(clo) < 4:
                    raise Unsupported("worker closure environment is not an aggregate with named captures")
                wenv = {nm: heap[c] for (idx, c), nm in zip(clo[1], clo[3])}
                for fn in ("target_max_depth", "target_state_count"):
                    if fn in wenv:
                        ok = wenv[fn] == ("opaque", f"cap.{fn}")
                        add(f"local closure {m.group(1)} path {i}: the worker is handed the captured {fn} unchanged", ok, g, **({} if ok else {"witness": {"checker": name, "handed": str(wenv[fn])[:80]}}))
                if "target_max_depth" not in wenv:
                    add(f"local closure {m.group(1)} path {i}: the worker is handed the captured target_max_depth unchanged", False, g, witness={"checker": name, "handed": "nothing (not captured)"})
        # (2) what spawn() puts into that closure
        built = 0
        for i, o in enumerate(spawn_outs):
            if o.kind == "panic":
                continue
            g = z3.And(*o.st.pc) if o.st.pc else z3.BoolVal(True)
            for e in o.st.events:
                if e[0] == "closure_built" and e[1] == span:
                    built += 1
                    clo, heap = e[2], e[3]
                    cenv = {nm: heap[c] for (idx, c), nm in zip(clo[1], clo[3])}
                    for fn in ("target_max_depth", "target_state_count"):
                        if fn not in cenv:
                            continue
                        v = cenv[fn]
                        if v[0] == "ref":
                            v = heap[v[1]]
                        ok = v == opt_fields[fn]
                        add(f"path {i}: the closure that creates the workers captures options.{fn} unchanged", ok, g, **({} if ok else {"witness": {"checker": name, "captured": str(v)[:80]}}))
        if built == 0:
            raise Unsupported(f"{name} spawn: the local closure that creates the workers is never built")
    return n


def initial_depth_in_spawn(name, mir_text):
    """Fallback of blockloop.initial_depth: the initial jobs are built in spawn() itself (a loop with
    push_back) rather than in a closure: every job tuple pushed there carries depth 1."""
    text = None
    for f in split_functions(mir_text):
        if re.match(rf"^fn (?:checker::)?{name}::<impl at src/checker/{name}\.rs[^>]*>::spawn\(", f.split("\n", 1)[0]):
            text = f
    if text is None:
        raise Unsupported(f"{name}: spawn() not found in the MIR")
    body = parse_body(text)
    ex = SpawnExecutor({Executor.short(body): body})
    ex.job_types, ex.depth_idx = [], None
    heads = sorted(h for h in loop_heads(body) if not body.blocks[h].cleanup)
    ex.loop_havoc = {h: _assigned(body, _natural_loop(body, h)) for h in heads}
    ex.stop_blocks = set()
    st = State()
    st.locals[body.params[0]] = st.alloc(("opaque", "options"))
    res = []
    for i, o in enumerate(ex.run(body, st, 0)):
        if o.kind == "panic":
            continue
        g = z3.And(*o.st.pc) if o.st.pc else z3.BoolVal(True)
        for e in o.st.events:
            if e[0] != "init_push":
                continue
            ints = [v for v in e[1] if v[0] == "int"]
            if len(ints) != 1:
                raise Unsupported(f"{name} spawn: cannot identify the depth component of an initial job ({[v[0] for v in e[1]]})")
            r, m = _check([], g, ints[0][1] != 1)
            res.append({"obligation": f"{name} spawn: an initial state is queued with depth 1", "result": "unsat" if r == z3.unsat else ("sat" if r == z3.sat else str(r)),
                        **({"witness": {"checker": name, "initial_depth": m.eval(ints[0][1], model_completion=True).as_long()}} if m is not None else {})})
    if not res:
        raise Unsupported(f"{name}: no place where spawn() builds the initial jobs was found")
    return res
