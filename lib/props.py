"""Per-property configuration of the checks (what is encoded, bounds, assumptions)."""

COMMON_ASSUME = [
    "crate `log` replaced by a model whose macros expand to nothing (logging has no effect on behaviour)",
    "crate `parking_lot` replaced by a sequential model (never exercised by these harnesses)",
    "Kani's panic=abort semantics; every loop fully unwound (unwinding assertions on)",
]

# Overlay used by the harnesses that touch HashableHashSet/HashableHashMap (Timers, RandomChoices):
# * the scratch buffer of util.rs is a `thread_local!` with a destructor, whose registration is a
#   foreign call Kani cannot execute; under cfg(kani) the same `BUFFER.with(|b| ..)` expression
#   hands the closure a fresh empty buffer (the algorithm clears the buffer first anyway, so this
#   is behaviourally identical). The hashing algorithm itself is untouched.
# * ahash::RandomState::new() reaches the getrandom syscall -> fixed-bytes model.
BUFFER_TRANSFORM = {
    "file": "src/util.rs",
    "regex": r"^thread_local!\(static BUFFER: RefCell<Vec<u64>> = RefCell::new\(Vec::with_capacity\(100\)\)\);",
    "repl": (
        "#[cfg(not(kani))]\n"
        "thread_local!(static BUFFER: RefCell<Vec<u64>> = RefCell::new(Vec::with_capacity(100)));\n"
        "#[cfg(kani)]\nstruct VerifBuffer;\n"
        "#[cfg(kani)]\nimpl VerifBuffer {\n    fn with<R>(&'static self, f: impl FnOnce(&RefCell<Vec<u64>>) -> R) -> R {\n        let fresh = RefCell::new(Vec::new());\n        f(&fresh)\n    }\n}\n"
        "#[cfg(kani)]\nstatic BUFFER: VerifBuffer = VerifBuffer;"
    ),
}
GETRANDOM_PATCH = 'getrandom = {{ path = "{v}/shims/getrandom" }}\nonce_cell = {{ path = "{v}/shims/once_cell" }}'
# Container models: in the scratch copy the listed files import /verif/models/collections.rs
# (copied to src/verif_models.rs) instead of std::collections.
MODEL_FILES = [
    "src/util.rs", "src/actor/network.rs", "src/checker/rewrite.rs", "src/semantics/linearizability.rs",
    "src/semantics/sequential_consistency.rs", "src/has_discoveries.rs", "src/actor/model.rs",
]
MODEL_TRANSFORMS = [{"file": f, "regex": r"std::collections::", "repl": "crate::verif_models::", "min": 1} for f in MODEL_FILES] + [
    {"file": "src/util.rs", "regex": r"buffer\.sort_unstable\(\);", "repl": "crate::verif_models::sort_u64(&mut buffer[..]);", "min": 2},
]
MODELS_ASSUME = [
    "std::collections::{HashMap,HashSet,BTreeMap,BTreeSet,VecDeque} replaced IN THE SCRATCH COPY (files: " + ", ".join(MODEL_FILES) + ") by Vec-backed models "
    "(/verif/models/collections.rs) implementing the documented std contract: unique keys, order-insensitive equality for hash containers, ascending key order and "
    "std's Eq/Ord/Hash for B-tree containers and VecDeque; hash containers iterate in insertion order (one legal order; oracles are order-insensitive)",
    "<[u64]>::sort_unstable in util.rs's order-insensitive hashing replaced by an insertion-sort model with the same contract (ascending permutation)",
    "once_cell replaced by a sequential model (the race branch of the real OnceBox yields spurious free() failures under Kani's atomics model)",
]
HASHSET_ASSUME = [
    "ahash::RandomState::new() (seed of Timers/RandomChoices tables) returns fixed keys: a copy of the real ahash crate with only that function replaced is patched in (its OnceBox + dyn RandomSource + OS entropy path made Kani verdicts depend on the absolute path of dependency crates)",
    "util.rs scratch BUFFER thread_local replaced under cfg(kani) by an object whose `with` hands out a fresh empty buffer (the algorithm clears it first anyway; scratch copy only)",
    "getrandom 0.3 replaced by a fixed-bytes model (hasher seeds only affect iteration order of non-empty hash tables; the harness tables are empty)",
]

import os as _os, sys as _sys
_sys.path.insert(0, _os.path.join(_os.path.dirname(_os.path.dirname(_os.path.abspath(__file__))), "mirsym"))
import texts as _MT  # claim texts of the mirsym checks (shared with mirsym/driver.py)

PROPS = {
    "C20": {
        "engine": "kani",
        "files": ["common.rs", "c20.rs"],
        "explanation": (
            "Bounded symbolic model checking (Kani/CBMC) of the real VectorClock and DenseNatMap code: for every "
            "length combination up to the bound and ALL u32 component values the solver decides == and partial_cmp "
            "against the zero-padded product-order oracle, the order laws stated directly (reflexive, antisymmetric, "
            "transitive on triples), merge_max = least upper bound (vs. an arbitrary third clock), incremented strictly "
            "greater, hash/equality coherence through a recording Hasher; for DenseNatMap<Id,u8>: from_iter over every "
            "key permutation, rejection of every gap/duplicate (must-not-return), insert/get/iter/values/Index/into_iter "
            "against the underlying vector, rewrite under every plan produced by sorting 3 values with ties."
        ),
        "bounds": {"clock_len": "0..=3 (thorough: 0..=4 for pairs)", "components": "full u32", "map_len": "0..=3", "unwind": "6-26"},
        "outside": ["clocks/maps longer than the bound", "incremented at component value u32::MAX (debug panics / release wraps; documented boundary)", "Display, serde"],
        "assumptions": COMMON_ASSUME + ["incremented: component < u32::MAX"],
    },
    "C15": {
        "engine": "kani",
        "files": ["c15.rs"],
        "explanation": (
            "Bounded symbolic model checking (Kani/CBMC) of the real adapter code: a probe actor whose behaviour "
            "(write state or not, 0-2 commands of any kind with symbolic payloads) is chosen by the solver is run for one "
            "handler step bare and inside each adapter - Choice<P,Never>, Choice<P,Q> (L), Choice<Q,P> (R), the 3-level "
            "nesting of choice!, RegisterActor::Server, WORegisterActor::Server - for every event kind (start, msg, timeout, "
            "random), every id/src/message/timer/random value and every wrapped pre-state; asserted: same arguments seen, same "
            "resulting state, Borrowed stays Borrowed (no-op detection), same commands in the same order, name forwarded. "
            "Adapters hold no state, so one step covers executions of any length. Scripted Vec client: every script of "
            "length <=3, every position: sends exactly the next entry, advances by one, nothing after the end."
        ),
        "bounds": {"commands_per_handler": "0..=2 (quick: 3 command scripts per adapter x event - none, Send+SetTimer, ChooseRandom+CancelTimer; thorough: 5)", "nesting": "<=3", "script_len": "0..=3", "alphabets": "u8 timers/randoms; u8 / RegisterMsg<u64,char,u8> / WORegisterMsg<u64,char,u8> messages; Id over all usize", "unwind": 4},
        "outside": ["isomorphism of whole reachable state spaces (follows from the step lemma; not re-checked by running a checker)", "Choice nestings deeper than 3", "ChooseRandom keys other than 1-byte strings"],
        "assumptions": COMMON_ASSUME,
    },
    "C17": {
        "engine": "kani",
        "files": ["c17.rs"],
        "timeout": {"quick": 600, "thorough": 1800},
        "extra_patches": [GETRANDOM_PATCH],
        "transforms": [
            {"file": "src/actor/spawn.rs", "regex": r"^fn on_command<A, E>\(", "repl": "pub(crate) fn on_command<A, E>(", "min": 1, "keep_for_replay": True},
            {"file": "src/actor/spawn.rs", "regex": r"^enum Interrupt<T, R> \{", "repl": "pub(crate) enum Interrupt<T, R> {", "min": 1, "keep_for_replay": True},
            {"file": "src/actor/spawn.rs", "regex": r"std::collections::", "repl": "crate::verif_models::", "min": 1},
            {"file": "src/actor.rs", "regex": r"^mod spawn;", "repl": "pub(crate) mod spawn;", "min": 1, "keep_for_replay": True},
        ],
        "explanation": (
            "Bounded symbolic model checking (Kani/CBMC) of (a) the two real From impls in src/actor/spawn.rs over the FULL input "
            "space: every u64 id below 2^48 round-trips through SocketAddrV4 and has exactly its bytes as octets/port; every "
            "(a,b,c,d,port) round-trips through Id and yields a 48-bit id; two ids map to the same address exactly when their low "
            "48 bits agree; (b) the timer bookkeeping of the UDP runtime, the real on_command(), with Instant::now() stubbed by a symbolic "
            "non-decreasing clock: after SetTimer(t,d) [SetTimer(t,d')] the deadline of t is at least (time of the LATEST arming) + d', re-arming "
            "creates no second entry, CancelTimer(t) leaves t not due for >400 years, cancelling an unset timer arms nothing, other timers untouched; "
            "(c) by engine M (symbolic execution of the compiler's MIR of the per-actor thread closure of spawn(), every callee arbitrary, loops havocked, opaque values with recorded provenance, z3 for path feasibility): "
            "the socket is bound, then on_start runs exactly once before the receive loop and before any other handler and is never called again; a round calls at most one handler; on_msg is called only after recv_from and "
            "deserialize on that round, with the actor's own id, the Ok payload of deserialize and Id::from of the IPv4 source address recv_from returned; on_timeout/on_random run only when the earliest deadline has passed "
            "(no receive on that round) and after that interrupt was removed from the pending set; every handler is handed the same state cell; the round's commands go through on_command."
        ),
        "technique": "solver-based bounded model checking of the compiled code (Kani/CBMC harnesses over kani::any() inputs) for the Id<->address conversions and the timer bookkeeping; symbolic execution of the compiler's MIR into z3 (mirsym) for the runtime loop's handler calls",
        "bounds": {"ids": "all u64 (bijection asserted on ids < 2^48)", "addresses": "all 2^48 IPv4 socket addresses", "timers": "2 timers, durations 0..65535 s (degenerate ranges), <=2 armings + 1 cancel, clock steps < 10^6 s"},
        "outside": ["in the event loop of spawn(): what the sockets deliver (the OS), which pending interrupt is the earliest (min_by_key over the map), that set_read_timeout bounds the wait, the bytes handed to deserialize (in_buf[..count]), serialization and send_to in on_command's Send arm", "timer ranges with start < end (jitter via rand::thread_rng)", "ChooseRandom in the runtime"],
        "assumptions": COMMON_ASSUME + ["std::time::Instant::now stubbed by a symbolic non-decreasing clock (kani::stub)", "on_command/Interrupt/mod spawn made pub(crate) in the scratch copy (visibility only)", "HashMap of pending interrupts is the Vec-backed model (scratch copy of spawn.rs)", "once_cell/getrandom models"],
    },
    "C18": {
        "engine": "kani",
        "files": ["c18.rs"],
        "explanation": (
            "Bounded symbolic model checking (Kani/CBMC) of the real specs and harness actors: for Register<u8>, WORegister<u8> and "
            "Vec<u8> (length 0..=3), every object, operation and candidate return: is_valid_step == (invoke(op) == ret) and an accepted "
            "step leaves the state invoke leaves; is_valid_history over every op/ret sequence of length <=3 equals the fold of invoke. "
            "Client protocol of RegisterActor/WORegisterActor: start-up and ONE INDUCTIVE STEP from every client state satisfying the "
            "invariant (awaiting=Some(r) => r=op_count*index) and every incoming message: at most one request, only on the matching "
            "reply, to a server, with the fresh strictly larger id (op_count+1)*index; anything else is a no-op. Recording hooks "
            "record_invocations/record_returns run against a recording ConsistencyTester: exactly Put/Get become invocations by the "
            "sender, exactly PutOk/PutFail/GetOk returns to the receiver, the given history is never altered."
        ),
        "bounds": {"values": "u8 (specs), char (hooks)", "vec_len": "0..=3", "history_len": "0..=3", "put_count": "<= 2^16", "server_count": "1..=2^16", "clients": "index - server_count < 26 (values are letters)", "op_count": "<= 2^16+2", "unwind": "3-6"},
        "outside": ["state of the object after a REJECTED step (the override and invoke legitimately differ there; testers discard the object)", "whole-model histories with the real Linearizability/SequentialConsistency testers (BTreeMap-bound, see C08/C14)", "specs over other value types"],
        "assumptions": COMMON_ASSUME + ["clients are added after servers (documented; the opposite is checked to be rejected)", "at most 26 clients (documented value scheme 'A'+k / 'Z'-k)"],
    },
    "C10": {
        "engine": "kani",
        "ahash_fixed_new": True,
        "files": ["c10.rs"],
        "timeout": {"quick": 900, "thorough": 3000},
        "extra_patches": [GETRANDOM_PATCH],
        "transforms": [BUFFER_TRANSFORM] + MODEL_TRANSFORMS,
        "explanation": (
            "Bounded symbolic model checking (Kani/CBMC) of the real plan/rewrite/representative code: for EVERY value vector of "
            "length <=3 (thorough 4) over {0..3} (ties common) the plan from from_values_to_sort equals the stable-sorting-permutation "
            "formula rank(i) = #smaller + #equal-before, is a permutation, reindex sorts, and reindex and rewrite are consistent on an "
            "independent id vector; plans from DenseNatMap agree; structural Rewrite impls (Vec, pair, Option, VecDeque, Arc, Envelope, "
            "DenseNatMap<Id,Id>, scalars) apply the plan pointwise in order; ActorModelState::representative() for 1-2 actors with "
            "symbolic actor states embedding an id, symbolic crash flags and a 2-id history equals the image under that ONE permutation "
            "of actor states (moved + embedded ids rewritten), crash flags (moved) and history (rewritten); Network::rewrite on a non-empty network of each "
            "kind (one envelope held 1-3 times / one envelope + last message / one two-message flow; endpoints and payload ids symbolic): every copy and the "
            "queue order are kept, endpoints and embedded ids are rewritten by the same plan."
        ),
        "bounds": {"vector_len": "1..=3 (thorough 4)", "values": "0..=3 (u8)", "actors": "1..=2 (3 actors: CBMC out of memory, measured)", "history": "2 ids", "unwind": "4-8"},
        "outside": ["verdict preservation / state-count inequalities of DFS with symmetry (checker loops, see C01)", "networks with several envelopes/flows, rewriting of non-empty timers and random choices inside ActorModelState", "longer vectors"],
        "assumptions": COMMON_ASSUME + HASHSET_ASSUME + MODELS_ASSUME + ["ids embedded in states/history refer to existing actors (< n), as the plan's lookup requires"],
    },
    "C04": {
        "engine": "kani",
        "ahash_fixed_new": True,
        "files": ["common.rs", "c04.rs"],
        "timeout": {"quick": 400, "thorough": 3000},
        "extra_patches": [GETRANDOM_PATCH],
        "transforms": [BUFFER_TRANSFORM] + MODEL_TRANSFORMS,
        "explanation": (
            "Bounded symbolic model checking (Kani/CBMC) of the real Hash/PartialEq code through a recording Hasher that captures the "
            "exact byte stream and call structure: for two arbitrary values x,y the solver decides x==y => identical stream, x!=y => "
            "different byte stream, and == is componentwise equality - for pairs of VectorClocks side by side (incl. the adjacency shapes "
            "([x],[]) vs ([],[x])), pairs of DenseNatMap<Id,u8>, and ActorModelState<_,u8> with 1 (thorough 2) actors over ALL actor "
            "states, histories and crash-flag vectors (timers, random choices, network empty): states differing only in a crash flag are "
            "different states with different streams; pairs of HashableHashSet<u8> / HashableHashMap<u8,u8> (Vec-backed container model, REAL order-insensitive Hash code) "
            "holding one element on either side, and (thorough) the same two elements inserted in either order, a single-entry HashableHashMap<u8,u8> that determines key AND value in their roles "
            "({k->v} vs {v->k}, {k->k} vs {k2->k2}), and one-actor ActorModelStates that differ only in a set timer ({} / {t1} / {t2}) or only in an in-flight message (duplicating network, {} / {m1} / {m2}). (Single VectorClock coherence is decided in C20's hash harnesses.)"
        ),
        "bounds": {"clock_len": "0..=2 per clock in pairs", "map_len": "0..=3", "actors": "1 (thorough 2; measured 688 s)", "components": "full u32 / u8", "unwind": "3-11"},
        "outside": ["hash containers with more than 1-2 elements, nested ones, capacity/seed independence of the REAL hashbrown tables (the containers are modelled), Timers/Network with more than one element and non-duplicating/ordered networks with messages inside ActorModelState (one set timer / one in-flight message on a duplicating network are covered in the thorough tier), RandomChoices (known finding), the consistency testers", "random_choices missing from ActorModelState identity (DESIGN 5.4)", "reachable states of arbitrary actor models"],
        "assumptions": COMMON_ASSUME + HASHSET_ASSUME + MODELS_ASSUME,
    },
    "C09": {
        "engine": "kani",
        "ahash_fixed_new": True,
        "files": ["common.rs", "c09.rs"],
        "extra_patches": [GETRANDOM_PATCH],
        "transforms": [BUFFER_TRANSFORM] + MODEL_TRANSFORMS,
        "timeout": {"quick": 400, "thorough": 2400},
        "explanation": (
            "Bounded symbolic model checking (Kani/CBMC) of the real ActorModel::next_state / actions code for a ONE-actor system "
            "(two actors: CBMC runs out of memory, measured), over ALL actor states, crash-flag vectors, budgets, sources and messages: "
            "next_state(Crash(i)) sets exactly flag i, leaves all else unchanged, leaves i without timers/choices and yields a state that "
            "is != its predecessor with a different hasher stream; next_state(Deliver{dst:i}) is None for every crashed i and runs the "
            "handler for every i that is up without touching other actors or flags; actions() offers Crash(i) exactly for the actors "
            "that are up, in order, and only while #down < max_crashes (budget arithmetic); a crash of an actor HOLDING a timer / a pending "
            "random choice discards it; on an ordered network a delivery to a crashed actor yields no successor either."
        ),
        "bounds": {"actors": "1", "budget": "0..=2", "values": "u8 states/messages/timers/randoms, all usize source ids", "pending": "<=1 timer, <=1 choice (empty-string key)", "unwind": "3-4"},
        "outside": ["systems of 2+ actors (so: 'all other actors behave as before' is only checked as 'nothing else in the state changes'), several pending timers/choices, choice keys that are non-empty strings (symbolic-size allocation on clone)", "that a checker explores each crashed combination (checker loops, see C01)"],
        "assumptions": COMMON_ASSUME + HASHSET_ASSUME + MODELS_ASSUME,
    },
    **{pid: {
        "engine": "mirsym",
        "explanation": _MT.EXPLAIN[pid],
        "bounds": _MT.BOUNDS[pid],
        "outside": _MT.OUTSIDE[pid],
        "assumptions": _MT.ASSUME,
        "technique": _MT.TECHNIQUE[pid],
    } for pid in _MT.EXPLAIN},
    "C19": {
        "engine": "kani",
        "files": ["c19.rs"],
        "timeout": {"quick": 900, "thorough": 3600},
        "explanation": (
            "Path-API clause only. Bounded symbolic model checking (Kani/CBMC) of the real Path::from_actions, Path::final_state and "
            "Path::from_fingerprints code against a SOLVER-CHOSEN model: a transition table over 3 states x 2 actions with symbolic "
            "successors / ignored actions and a symbolic set of initial states. For every table, start state and action list of length "
            "<=1 (thorough 2): from_actions yields a path exactly when the sequence is executable from an initial state, and the path "
            "lists the genuine successor states and actions. For every table and every sequence of <=2 (thorough 3) state fingerprints "
            "(real ahash fingerprint function): final_state resolves exactly the sequences that denote an execution (None otherwise - "
            "what the Explorer turns into 404), and from_fingerprints rebuilds that execution with actions that really lead to the next state."
        ),
        "bounds": {"states": 3, "actions_per_state": 2, "path_len": "<=1 transition (thorough 2)", "unwind": 5},
        "outside": ["the Explorer's HTTP/JSON layer, status endpoint and property views", "the on-demand checker (threads, channels; its join() cannot return)", "Path::encode (format!-built string) and paths reported by checkers", "longer paths, larger models"],
        "assumptions": COMMON_ASSUME + ["fingerprints of the model's 4 state values are pairwise distinct (asserted in the harness, not assumed)"],
    },
}
