//! Shared helpers for the Kani harnesses (compiled only under `cfg(kani)`, inside a scratch copy
//! of the crate, so `pub(crate)` items of stateright are visible).
#![allow(dead_code)]

use std::hash::Hasher;

/// Capacity of the recorded hasher input, in bytes (12 words).
pub const REC_CAP: usize = 96;
/// Capacity of the recorded call marks.
pub const MARK_CAP: usize = 24;

/// A `Hasher` that records exactly what it is fed.
///
/// * the flat byte stream (what a streaming hasher such as SipHash sees), packed little-endian
///   into `words`, `n` bytes long: two values whose flat streams are equal collide under *every*
///   hasher that only looks at the concatenated bytes, and values whose flat streams differ are
///   not systematic collisions;
/// * `marks[..m]` additionally records the call structure (kind of `write_*` call and its
///   length): equal values must agree on this too, otherwise a call-structure-sensitive hasher
///   (ahash is one) may split them.
///
/// The recorder itself is loop-free except for `write(&[u8])` (bounded by the slice length), so
/// that harnesses can run with a small global unwinding bound - the code under test contains
/// `sort_unstable`, whose internal loops are unrolled up to that bound.
#[derive(Clone, Copy)]
pub struct Rec {
    pub words: [u64; 12],
    pub n: usize,
    pub marks: [u8; MARK_CAP],
    pub m: usize,
    pub overflow: bool,
}

macro_rules! all_eq {
    ($a:expr, $b:expr; $($i:literal),*) => { true $(&& $a[$i] == $b[$i])* };
}

impl Rec {
    pub fn new() -> Self {
        Rec { words: [0; 12], n: 0, marks: [0; MARK_CAP], m: 0, overflow: false }
    }
    fn mark(&mut self, k: u8) {
        if self.m < MARK_CAP {
            self.marks[self.m] = k;
            self.m += 1;
        } else {
            self.overflow = true;
        }
    }
    fn push(&mut self, b: u8) {
        if self.n < REC_CAP {
            self.words[self.n >> 3] |= (b as u64) << ((self.n & 7) * 8);
            self.n += 1;
        } else {
            self.overflow = true;
        }
    }
    fn push2(&mut self, v: u16) {
        self.push(v as u8);
        self.push((v >> 8) as u8);
    }
    fn push4(&mut self, v: u32) {
        self.push2(v as u16);
        self.push2((v >> 16) as u16);
    }
    fn push8(&mut self, v: u64) {
        self.push4(v as u32);
        self.push4((v >> 32) as u32);
    }
    /// Flat byte streams equal (unused tail bytes are zero in both).
    pub fn same_bytes(&self, o: &Rec) -> bool {
        self.n == o.n && all_eq!(self.words, o.words; 0, 1, 2, 3, 4, 5, 6, 7, 8, 9, 10, 11)
    }
    /// Flat byte streams and call structure equal.
    pub fn same_calls(&self, o: &Rec) -> bool {
        self.same_bytes(o)
            && self.m == o.m
            && all_eq!(self.marks, o.marks; 0, 1, 2, 3, 4, 5, 6, 7, 8, 9, 10, 11, 12, 13, 14, 15, 16, 17, 18, 19, 20, 21, 22, 23)
    }
}

impl Hasher for Rec {
    fn finish(&self) -> u64 {
        0
    }
    fn write(&mut self, bytes: &[u8]) {
        self.mark(0x80 | (bytes.len() as u8 & 0x7f));
        let mut i = 0;
        while i < bytes.len() {
            self.push(bytes[i]);
            i += 1;
        }
    }
    fn write_u8(&mut self, i: u8) {
        self.mark(1);
        self.push(i);
    }
    fn write_u16(&mut self, i: u16) {
        self.mark(2);
        self.push2(i);
    }
    fn write_u32(&mut self, i: u32) {
        self.mark(4);
        self.push4(i);
    }
    fn write_u64(&mut self, i: u64) {
        self.mark(8);
        self.push8(i);
    }
    fn write_usize(&mut self, i: usize) {
        self.mark(9);
        self.push8(i as u64);
    }
}

pub fn rec_of<T: std::hash::Hash + ?Sized>(t: &T) -> Rec {
    let mut r = Rec::new();
    t.hash(&mut r);
    r
}

/// A symbolic clock/vector description: `len <= max` significant components.  Vectors are built
/// from it by an exhaustive case split so that no allocation has a symbolic size (a symbolic-size
/// allocation - including `Vec::clone` of such a vector - makes CBMC run out of memory).
#[derive(Clone, Copy)]
pub struct SymVec<T: Copy> {
    pub len: usize,
    pub c: [T; 4],
}

impl<T: Copy + kani::Arbitrary + Default> SymVec<T> {
    pub fn any(max: usize) -> Self {
        let len: usize = kani::any();
        kani::assume(len <= max && max <= 4);
        SymVec { len, c: [kani::any(), kani::any(), kani::any(), kani::any()] }
    }
    /// Concrete length `n` (use inside const-generic helpers so that every allocation in the code
    /// under test has a concrete size).
    pub fn any_n(n: usize) -> Self {
        SymVec { len: n, c: [kani::any(), kani::any(), kani::any(), kani::any()] }
    }
    pub fn vec(&self) -> Vec<T> {
        let c = &self.c;
        match self.len {
            0 => vec![],
            1 => vec![c[0]],
            2 => vec![c[0], c[1]],
            3 => vec![c[0], c[1], c[2]],
            _ => vec![c[0], c[1], c[2], c[3]],
        }
    }
    /// Component `i`, with the type's default (zero) beyond `len`.
    pub fn at(&self, i: usize) -> T {
        if i < self.len {
            self.c[i]
        } else {
            T::default()
        }
    }
}
