//! C20 — vector clocks and dense maps obey their algebraic laws.
//! Instantiations: `VectorClock` (u32 components), `DenseNatMap<Id, u8>`, `DenseNatMap<Id, Id>`,
//! `RewritePlan<Id, DenseNatMap<Id, Id>>`.
//!
//! Every helper is const-generic in the lengths so that all allocations made by the code under
//! test have a concrete size; harnesses instantiate every length combination up to the bound.
use super::common::*;
use crate::actor::Id;
use crate::util::{DenseNatMap, VectorClock};
use crate::{Rewrite, RewritePlan};
use std::cmp::Ordering;

fn oracle_cmp(a: &SymVec<u32>, b: &SymVec<u32>) -> Option<Ordering> {
    let mut some_less = false;
    let mut some_greater = false;
    let mut i = 0;
    while i < 4 {
        let x = a.at(i);
        let y = b.at(i);
        if x < y {
            some_less = true;
        }
        if x > y {
            some_greater = true;
        }
        i += 1;
    }
    match (some_less, some_greater) {
        (false, false) => Some(Ordering::Equal),
        (true, false) => Some(Ordering::Less),
        (false, true) => Some(Ordering::Greater),
        (true, true) => None,
    }
}

fn oracle_eq(a: &SymVec<u32>, b: &SymVec<u32>) -> bool {
    a.at(0) == b.at(0) && a.at(1) == b.at(1) && a.at(2) == b.at(2) && a.at(3) == b.at(3)
}

/// `==` is equality of zero-padded components; `partial_cmp` is the product order on them (hence
/// reflexive, antisymmetric, transitive, compatible with `==`); the laws are also stated directly.
fn eq_cmp<const LA: usize, const LB: usize>() {
    let va = SymVec::<u32>::any_n(LA);
    let vb = SymVec::<u32>::any_n(LB);
    let a = VectorClock::from(va.vec());
    let b = VectorClock::from(vb.vec());
    let want_eq = oracle_eq(&va, &vb);
    assert!((a == b) == want_eq, "C20 eq is equality up to trailing zeros");
    assert!((b == a) == want_eq, "C20 eq symmetric");
    let got = a.partial_cmp(&b);
    assert!(got == oracle_cmp(&va, &vb), "C20 partial_cmp is the product order");
    let rev = b.partial_cmp(&a);
    assert!(rev == got.map(Ordering::reverse), "C20 antisymmetry: cmp(b,a) reverses cmp(a,b)");
    assert!((a <= b && b <= a) == (a == b), "C20 antisymmetry");
    assert!(a.partial_cmp(&a) == Some(Ordering::Equal), "C20 reflexive");
    assert!((got == Some(Ordering::Equal)) == (a == b), "C20 order compatible with ==");
    kani::cover!(!(LA != LB) || (a == b), "equal clocks of different length");
    kani::cover!(!(LA >= 2 && LB >= 2) || (got.is_none()), "incomparable clocks");
}

macro_rules! all_lb {
    ($f:ident, $la:literal) => {
        $f::<$la, 0>();
        $f::<$la, 1>();
        $f::<$la, 2>();
        $f::<$la, 3>();
    };
}
macro_rules! all_lb4 {
    ($f:ident, $la:literal) => {
        $f::<$la, 0>();
        $f::<$la, 1>();
        $f::<$la, 2>();
        $f::<$la, 3>();
        $f::<$la, 4>();
    };
}

#[kani::proof]
#[kani::unwind(6)]
fn c20_vc_eq_cmp_la0() {
    all_lb!(eq_cmp, 0);
}
#[kani::proof]
#[kani::unwind(6)]
fn c20_vc_eq_cmp_la1() {
    all_lb!(eq_cmp, 1);
}
#[kani::proof]
#[kani::unwind(6)]
fn c20_vc_eq_cmp_la2() {
    all_lb!(eq_cmp, 2);
}
#[kani::proof]
#[kani::unwind(6)]
fn c20_vc_eq_cmp_la3() {
    all_lb!(eq_cmp, 3);
}
// thorough: length 4
#[kani::proof]
#[kani::unwind(7)]
fn c20_t_vc_eq_cmp_la4() {
    all_lb4!(eq_cmp, 4);
}
#[kani::proof]
#[kani::unwind(7)]
fn c20_t_vc_eq_cmp_lb4() {
    eq_cmp::<0, 4>();
    eq_cmp::<1, 4>();
    eq_cmp::<2, 4>();
    eq_cmp::<3, 4>();
}

/// Transitivity stated directly on triples.
fn transitive<const LA: usize, const LB: usize, const LC: usize>() {
    let a = VectorClock::from(SymVec::<u32>::any_n(LA).vec());
    let b = VectorClock::from(SymVec::<u32>::any_n(LB).vec());
    let c = VectorClock::from(SymVec::<u32>::any_n(LC).vec());
    if a <= b && b <= c {
        assert!(a <= c, "C20 transitivity of <=");
    }
    if a < b && b <= c {
        assert!(a < c, "C20 transitivity, strict left");
    }
    if a <= b && b < c {
        assert!(a < c, "C20 transitivity, strict right");
    }
    if a == b && b == c {
        assert!(a == c, "C20 transitivity of ==");
    }
    kani::cover!(!(LA >= 1 && LB >= 1 && LC >= 1) || (a < b && b < c), "strict chain");
}

#[kani::proof]
#[kani::unwind(6)]
fn c20_vc_transitive_a() {
    transitive::<3, 3, 3>();
    transitive::<1, 2, 3>();
    transitive::<0, 1, 2>();
}
#[kani::proof]
#[kani::unwind(6)]
fn c20_vc_transitive_b() {
    transitive::<3, 2, 1>();
    transitive::<2, 3, 1>();
    transitive::<2, 0, 3>();
    transitive::<3, 1, 3>();
}
macro_rules! all_lc {
    ($f:ident, $la:literal, $lb:literal) => {
        $f::<$la, $lb, 0>();
        $f::<$la, $lb, 1>();
        $f::<$la, $lb, 2>();
        $f::<$la, $lb, 3>();
    };
}
macro_rules! all_lb_lc {
    ($f:ident, $la:literal) => {
        all_lc!($f, $la, 0);
        all_lc!($f, $la, 1);
        all_lc!($f, $la, 2);
        all_lc!($f, $la, 3);
    };
}
#[kani::proof]
#[kani::unwind(6)]
fn c20_t_vc_transitive_la0() {
    all_lb_lc!(transitive, 0);
}
#[kani::proof]
#[kani::unwind(6)]
fn c20_t_vc_transitive_la1() {
    all_lb_lc!(transitive, 1);
}
#[kani::proof]
#[kani::unwind(6)]
fn c20_t_vc_transitive_la2() {
    all_lb_lc!(transitive, 2);
}
#[kani::proof]
#[kani::unwind(6)]
fn c20_t_vc_transitive_la3() {
    all_lb_lc!(transitive, 3);
}

/// `merge_max` is the componentwise maximum (with implicit zeros), an upper bound of both
/// arguments, below every other upper bound `c`, commutative and idempotent.
fn merge_lub<const LA: usize, const LB: usize, const LC: usize>() {
    let va = SymVec::<u32>::any_n(LA);
    let vb = SymVec::<u32>::any_n(LB);
    let a = VectorClock::from(va.vec());
    let b = VectorClock::from(vb.vec());
    let c = VectorClock::from(SymVec::<u32>::any_n(LC).vec());
    let m = VectorClock::merge_max(&a, &b);
    assert!(a <= m && b <= m, "C20 merge_max is an upper bound");
    if a <= c && b <= c {
        assert!(m <= c, "C20 merge_max is below every upper bound");
    }
    let m2 = VectorClock::merge_max(&b, &a);
    assert!(m == m2, "C20 merge_max commutative");
    assert!(VectorClock::merge_max(&a, &a) == a, "C20 merge_max idempotent");
    let mx = |x: u32, y: u32| if x > y { x } else { y };
    let want = VectorClock::from(vec![
        mx(va.at(0), vb.at(0)),
        mx(va.at(1), vb.at(1)),
        mx(va.at(2), vb.at(2)),
        mx(va.at(3), vb.at(3)),
    ]);
    assert!(m == want, "C20 merge_max is the componentwise max");
    kani::cover!(!(LA >= 2 && LB >= 2) || (a.partial_cmp(&b).is_none()), "merge of incomparable clocks");
}
fn merge_lub_c3<const LA: usize, const LB: usize>() {
    merge_lub::<LA, LB, 3>();
}
fn merge_lub_c1<const LA: usize, const LB: usize>() {
    merge_lub::<LA, LB, 1>();
}

#[kani::proof]
#[kani::unwind(6)]
fn c20_vc_merge_la0() {
    all_lb!(merge_lub_c3, 0);
}
#[kani::proof]
#[kani::unwind(6)]
fn c20_vc_merge_la1() {
    all_lb!(merge_lub_c3, 1);
}
#[kani::proof]
#[kani::unwind(6)]
fn c20_vc_merge_la2() {
    all_lb!(merge_lub_c3, 2);
}
#[kani::proof]
#[kani::unwind(6)]
fn c20_vc_merge_la3() {
    all_lb!(merge_lub_c3, 3);
}
#[kani::proof]
#[kani::unwind(6)]
fn c20_t_vc_merge_c1() {
    all_lb!(merge_lub_c1, 0);
    all_lb!(merge_lub_c1, 1);
    all_lb!(merge_lub_c1, 2);
    all_lb!(merge_lub_c1, 3);
}
#[kani::proof]
#[kani::unwind(7)]
fn c20_t_vc_merge_len4() {
    merge_lub::<4, 4, 4>();
    merge_lub::<4, 2, 3>();
    merge_lub::<1, 4, 4>();
}

/// Incrementing component `I` (inside or beyond the current length) gives a strictly greater
/// clock that differs in that component only, by one.
/// Precondition (documented boundary, see DESIGN): the component is below `u32::MAX`.
fn incremented<const LA: usize, const I: usize>() {
    let va = SymVec::<u32>::any_n(LA);
    kani::assume(va.at(I) < u32::MAX);
    let a = VectorClock::from(va.vec());
    let inc = VectorClock::from(va.vec()).incremented(I);
    assert!(inc > a, "C20 incremented clock is strictly greater");
    assert!(a < inc, "C20 original strictly smaller");
    assert!(inc != a, "C20 incremented differs");
    let mut w = [va.at(0), va.at(1), va.at(2), va.at(3)];
    w[I] += 1;
    let want = VectorClock::from(vec![w[0], w[1], w[2], w[3]]);
    assert!(inc == want, "C20 only component i changes, by one");
    kani::cover!(true, "incremented reached");
}

#[kani::proof]
#[kani::unwind(6)]
fn c20_vc_incremented_la0() {
    all_lb!(incremented, 0);
}
#[kani::proof]
#[kani::unwind(6)]
fn c20_vc_incremented_la1() {
    all_lb!(incremented, 1);
}
#[kani::proof]
#[kani::unwind(6)]
fn c20_vc_incremented_la2() {
    all_lb!(incremented, 2);
}
#[kani::proof]
#[kani::unwind(6)]
fn c20_vc_incremented_la3() {
    all_lb!(incremented, 3);
}

/// Equal clocks feed the hasher identically (bytes and call structure); unequal clocks feed
/// different byte streams.
fn hash_coherent<const LA: usize, const LB: usize>() {
    let va = SymVec::<u32>::any_n(LA);
    let vb = SymVec::<u32>::any_n(LB);
    let a = VectorClock::from(va.vec());
    let b = VectorClock::from(vb.vec());
    let ra = rec_of(&a);
    let rb = rec_of(&b);
    assert!(!ra.overflow && !rb.overflow);
    if oracle_eq(&va, &vb) {
        assert!(ra.same_calls(&rb), "C20 equal clocks hash equally");
    } else {
        assert!(!ra.same_bytes(&rb), "C04 unequal clocks feed different streams");
    }
    kani::cover!(!(LA != LB) || (oracle_eq(&va, &vb)), "equal with padding");
    kani::cover!(!(LA == LB && LA > 0) || (!oracle_eq(&va, &vb)), "unequal same length");
}

#[kani::proof]
#[kani::unwind(19)]
fn c20_vc_hash_la01() {
    all_lb!(hash_coherent, 0);
    all_lb!(hash_coherent, 1);
}
#[kani::proof]
#[kani::unwind(19)]
fn c20_vc_hash_la23() {
    all_lb!(hash_coherent, 2);
    all_lb!(hash_coherent, 3);
}

// ---------------------------------------------------------------------------------------------
// DenseNatMap

fn pairs_n<const N: usize>(k: [usize; 3], v: [u8; 3]) -> Vec<(Id, u8)> {
    match N {
        0 => vec![],
        1 => vec![(Id::from(k[0]), v[0])],
        2 => vec![(Id::from(k[0]), v[0]), (Id::from(k[1]), v[1])],
        _ => vec![(Id::from(k[0]), v[0]), (Id::from(k[1]), v[1]), (Id::from(k[2]), v[2])],
    }
}

fn is_perm<const N: usize>(k: [usize; 3]) -> bool {
    match N {
        0 => true,
        1 => k[0] == 0,
        2 => k[0] < 2 && k[1] < 2 && k[0] != k[1],
        _ => k[0] < 3 && k[1] < 3 && k[2] < 3 && k[0] != k[1] && k[0] != k[2] && k[1] != k[2],
    }
}

/// Construction from (key, value) pairs in any order: keys forming a permutation of `0..N`
/// give the map `k_i -> v_i`.
fn from_iter_perm<const N: usize>() {
    let k: [usize; 3] = kani::any();
    let v: [u8; 3] = kani::any();
    kani::assume(is_perm::<N>(k));
    let m: DenseNatMap<Id, u8> = pairs_n::<N>(k, v).into_iter().collect();
    assert!(m.len() == N, "C20 from_iter length");
    let mut i = 0;
    while i < N {
        assert!(m.get(Id::from(k[i])) == Some(&v[i]), "C20 from_iter maps k_i to v_i");
        i += 1;
    }
    assert!(m.get(Id::from(N)).is_none(), "C20 nothing beyond len");
    kani::cover!(!(N == 3) || (k[0] == 2 && k[1] == 0), "out-of-order construction");
}

#[kani::proof]
#[kani::unwind(6)]
fn c20_dm_from_iter_perm() {
    from_iter_perm::<0>();
    from_iter_perm::<1>();
    from_iter_perm::<2>();
    from_iter_perm::<3>();
}

/// Four entries (thorough): every key order of 0..4 builds the same map.
#[kani::proof]
#[kani::unwind(7)]
fn c20_t_dm_from_iter_perm4() {
    let k: [usize; 4] = [kani::any(), kani::any(), kani::any(), kani::any()];
    let v: [u8; 4] = [kani::any(), kani::any(), kani::any(), kani::any()];
    kani::assume(k[0] < 4 && k[1] < 4 && k[2] < 4 && k[3] < 4);
    kani::assume(k[0] != k[1] && k[0] != k[2] && k[0] != k[3] && k[1] != k[2] && k[1] != k[3] && k[2] != k[3]);
    let pairs = vec![(Id::from(k[0]), v[0]), (Id::from(k[1]), v[1]), (Id::from(k[2]), v[2]), (Id::from(k[3]), v[3])];
    let m: DenseNatMap<Id, u8> = pairs.into_iter().collect();
    assert!(m.len() == 4, "C20 from_iter length (4 entries)");
    let mut i = 0;
    while i < 4 {
        assert!(m.get(Id::from(k[i])) == Some(&v[i]), "C20 from_iter maps k_i to v_i whatever the key order (4 entries)");
        i += 1;
    }
    kani::cover!(k[0] == 1 && k[1] == 2 && k[2] == 3 && k[3] == 0, "4-cycle key order");
}

/// Keys that are not a permutation of `0..N` (gap or duplicate) are rejected: the constructor
/// never returns.  Decided by the cover `EXPECT-UNSAT ...` being unsatisfiable; the panic itself
/// shows up as the (expected) failed check "Invalid key at index".
fn from_iter_rejects<const N: usize>() {
    let k: [usize; 3] = kani::any();
    kani::assume(k[0] <= 4 && k[1] <= 4 && k[2] <= 4);
    kani::assume(!is_perm::<N>(k));
    kani::cover!(true, "reached constructor");
    let m: DenseNatMap<Id, u8> = pairs_n::<N>(k, [0, 1, 2]).into_iter().collect();
    let _ = m.len();
    kani::cover!(true, "EXPECT-UNSAT returned from from_iter on a gap or duplicate");
}

#[kani::proof]
#[kani::unwind(6)]
fn c20_dm_from_iter_rejects() {
    let n: u8 = kani::any();
    match n {
        1 => from_iter_rejects::<1>(),
        2 => from_iter_rejects::<2>(),
        _ => from_iter_rejects::<3>(),
    }
}

/// `insert`: at `len` appends and returns `None`; below `len` replaces and returns the old value;
/// the other entries are untouched.
fn insert_n<const N: usize>() {
    let vals = SymVec::<u8>::any_n(N);
    let mut m: DenseNatMap<Id, u8> = DenseNatMap::from(vals.vec());
    let k: usize = kani::any();
    kani::assume(k <= N);
    let v: u8 = kani::any();
    let old = m.insert(Id::from(k), v);
    if k == N {
        assert!(old.is_none(), "C20 insert at len returns None");
        assert!(m.len() == N + 1, "C20 insert at len appends");
    } else {
        assert!(old == Some(vals.c[k]), "C20 insert below len returns old value");
        assert!(m.len() == N, "C20 insert below len keeps length");
    }
    assert!(m.get(Id::from(k)) == Some(&v), "C20 inserted value readable");
    let mut j = 0;
    while j < N {
        if j != k {
            assert!(m.get(Id::from(j)) == Some(&vals.c[j]), "C20 other entries untouched");
        }
        j += 1;
    }
    kani::cover!(k == N, "append");
    kani::cover!(!(N > 0) || (k < N), "replace");
}

#[kani::proof]
#[kani::unwind(6)]
fn c20_dm_insert() {
    insert_n::<0>();
    insert_n::<1>();
    insert_n::<2>();
    insert_n::<3>();
}

/// `insert` beyond `len` never returns.
fn insert_rejects<const N: usize>() {
    let vals = SymVec::<u8>::any_n(N);
    let mut m: DenseNatMap<Id, u8> = DenseNatMap::from(vals.vec());
    let k: usize = kani::any();
    kani::assume(k > N && k <= 5);
    kani::cover!(true, "reached insert");
    let _ = m.insert(Id::from(k), 0);
    kani::cover!(true, "EXPECT-UNSAT returned from insert beyond len");
}

#[kani::proof]
#[kani::unwind(6)]
fn c20_dm_insert_rejects() {
    let n: u8 = kani::any();
    match n {
        0 => insert_rejects::<0>(),
        1 => insert_rejects::<1>(),
        2 => insert_rejects::<2>(),
        _ => insert_rejects::<3>(),
    }
}

/// `get`, `Index`, `iter`, `values`, `len`, `into_iter` agree with the underlying vector.
fn accessors<const N: usize>() {
    let vals = SymVec::<u8>::any_n(N);
    let m: DenseNatMap<Id, u8> = DenseNatMap::from(vals.vec());
    assert!(m.len() == N);
    let j: usize = kani::any();
    kani::assume(j <= 4);
    if j < N {
        assert!(m.get(Id::from(j)) == Some(&vals.c[j]), "C20 get");
        assert!(m[Id::from(j)] == vals.c[j], "C20 index");
    } else {
        assert!(m.get(Id::from(j)).is_none(), "C20 get out of range");
    }
    let mut cnt = 0;
    for (k, v) in m.iter() {
        assert!(usize::from(k) == cnt && *v == vals.c[cnt], "C20 iter yields (i, values[i]) in order");
        cnt += 1;
    }
    assert!(cnt == N, "C20 iter yields len items");
    let mut cnt2 = 0;
    for v in m.values() {
        assert!(*v == vals.c[cnt2], "C20 values in order");
        cnt2 += 1;
    }
    assert!(cnt2 == N);
    let mut cnt3 = 0;
    for (k, v) in m {
        assert!(usize::from(k) == cnt3 && v == vals.c[cnt3], "C20 into_iter in order");
        cnt3 += 1;
    }
    assert!(cnt3 == N);
    kani::cover!(true, "accessors reached");
}

#[kani::proof]
#[kani::unwind(6)]
fn c20_dm_accessors() {
    accessors::<0>();
    accessors::<1>();
    accessors::<2>();
    accessors::<3>();
}

fn sortme_n<const N: usize>(s: [u8; 3]) -> Vec<u8> {
    match N {
        1 => vec![s[0]],
        2 => vec![s[0], s[1]],
        _ => vec![s[0], s[1], s[2]],
    }
}

/// Rewriting under a plan moves the value at key `k` to key `plan(k)` (and rewrites values).
fn dm_rewrite<const N: usize>() {
    // the plan comes from sorting an arbitrary vector with ties
    let s: [u8; 3] = kani::any();
    kani::assume(s[0] < 3 && s[1] < 3 && s[2] < 3);
    let vals = SymVec::<u8>::any_n(N);
    let plan: RewritePlan<Id, _> = RewritePlan::from_values_to_sort(&sortme_n::<N>(s));
    let m: DenseNatMap<Id, u8> = DenseNatMap::from(vals.vec());
    let r = m.rewrite(&plan);
    assert!(r.len() == N, "C20 rewrite keeps length");
    let ids: [Id; 3] = [Id::from((N - 1) % 3), Id::from(0usize), Id::from(N / 2)];
    let mi: DenseNatMap<Id, Id> = DenseNatMap::from(match N {
        1 => vec![ids[0]],
        2 => vec![ids[0], ids[1]],
        _ => vec![ids[0], ids[1], ids[2]],
    });
    let ri = mi.rewrite(&plan);
    let mut k = 0;
    while k < N {
        let pk = plan.rewrite(&Id::from(k));
        assert!(usize::from(pk) < N, "C20 plan maps into range");
        assert!(r.get(pk) == Some(&vals.c[k]), "C20 rewrite moves value at k to plan(k)");
        assert!(ri.get(pk) == Some(&plan.rewrite(&ids[k])), "C20 rewrite rewrites id values too");
        k += 1;
    }
    kani::cover!(!(N == 3) || (usize::from(plan.rewrite(&Id::from(0usize))) == 2), "non-identity plan");
}

#[kani::proof]
#[kani::unwind(6)]
fn c20_dm_rewrite() {
    dm_rewrite::<1>();
    dm_rewrite::<2>();
    dm_rewrite::<3>();
}

/// Vacuity twin: a deliberately false assertion placed where the real assertions are must FAIL.
#[kani::proof]
#[kani::unwind(6)]
fn c20_twin_must_fail() {
    let va = SymVec::<u32>::any_n(3);
    let vb = SymVec::<u32>::any_n(2);
    let a = VectorClock::from(va.vec());
    let b = VectorClock::from(vb.vec());
    let _ = a == b;
    assert!(a.partial_cmp(&b).is_some(), "TWIN all clocks comparable (false)");
}
